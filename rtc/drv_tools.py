"""
rtc.drv_tools -- bounded run-time contracts for the tool-side properties

  C18  kconfcheck leaves compliant files alone and its fixes converge          (kconfcheck.core.validate_file, CLI)
  C19  the deprecated-options check depends only on a file's own scope          (kconfcheck.check_deprecated_options)
  C20  generated documentation omits only unreachable options, conditions are
       truth-preserving and there are no dangling links                         (esp_idf_kconfig.gen_kconfig_doc)

Everything here is a contract on REAL functions of the tree named by $PYVC_REPO (default /repo), evaluated over a stated,
deterministic small scope.  The oracles come from the property statements:

  C18  "documented format rules" = docs/en/kconfcheck/index.rst (4 spaces per level, sub-items one level deeper, help text
       two levels below its entry, no trailing blanks, no tabs, upper-case names with a common prefix >= 3, sourced files
       named Kconfig.<suffix>) -- the canonical renderer below produces such files from a tiny item model; "same
       configuration" = the node tree (every node: kind, name, type, prompt, dependencies, defaults, ranges, selects,
       implies, sets, line number, help) and gen.snapshot() of a fresh Kconfig(...) under parser 1 and parser 2.
  C19  spec function over the directory layout the driver itself created: nearest enclosing project root (CMakeLists.txt
       with project( ), global scope = IDF root rename file + components/** + explicitly passed + --includes.
  C20  brute force over all assignments to the user-settable bools / choices of the small tree with the real Kconfig
       evaluator (Symbol.visibility, Kconfig.eval_string, expr_value).

`python -m rtc.drv_tools <prop> [quick|thorough] [seed]` prints the result dict as JSON.
"""

import itertools
import json
import multiprocessing
import os
import random
import re
import shutil
import subprocess
import sys
import tempfile
import time
import traceback

REPO = os.environ.get("PYVC_REPO", "/repo")
if REPO in sys.path:
    sys.path.remove(REPO)
sys.path.insert(0, REPO)

# The project is imported BEFORE rtc.gen: rtc.gen puts "/repo" in front of sys.path when it is not there yet, which would
# shadow the tree named by $PYVC_REPO for every later (lazy) project import.
import esp_kconfiglib.core  # noqa: E402,F401
import kconfcheck.core  # noqa: E402,F401
import kconfcheck.check_deprecated_options  # noqa: E402,F401
import esp_idf_kconfig.gen_kconfig_doc  # noqa: E402,F401
import kconfgen.core  # noqa: E402,F401

import rtc.gen as G  # noqa: E402

while REPO in sys.path:
    sys.path.remove(REPO)
sys.path.insert(0, REPO)
for _m in ("esp_kconfiglib.core", "kconfcheck.core", "esp_idf_kconfig.gen_kconfig_doc", "kconfgen.core"):
    if not os.path.abspath(sys.modules[_m].__file__).startswith(os.path.abspath(REPO) + os.sep):
        raise ImportError("%s imported from %s, not from %s" % (_m, sys.modules[_m].__file__, REPO))

K = G.K

NAME = "drv_tools"
PROPERTIES = ["C18", "C19", "C20"]

PY = sys.executable


# ======================================================================================================================
# common helpers
# ======================================================================================================================

_DEVNULL_DONE = False


def _quiet():
    """The library logs to the real stderr (fd 2); send it to /dev/null for this process (workers inherit)."""
    global _DEVNULL_DONE
    if _DEVNULL_DONE:
        return
    G.silence_library_log()
    try:
        sys.stderr.flush()
        dn = os.open(os.devnull, os.O_WRONLY)
        os.dup2(dn, 2)
        os.close(dn)
    except Exception:  # noqa: BLE001
        pass
    _DEVNULL_DONE = True


def _write(path, text):
    os.makedirs(os.path.dirname(path), exist_ok=True)
    with open(path, "w", encoding="utf-8", newline="\n") as f:
        f.write(text)


def _read(path):
    with open(path, "r", encoding="utf-8", newline="") as f:
        return f.read()


def _pool_map(fn, chunks, jobs):
    if jobs <= 1 or len(chunks) <= 1:
        return [fn(c) for c in chunks]
    ctx = multiprocessing.get_context("fork")
    with ctx.Pool(min(jobs, len(chunks))) as pool:
        return pool.map(fn, chunks, 1)


def _chunks(seq, n):
    n = max(1, n)
    out = [[] for _ in range(n)]
    for i, x in enumerate(seq):
        out[i % n].append(x)
    return [c for c in out if c]


class _Acc:
    """Accumulator of contract evaluations, non-trivial cases, samples and violations (mergeable across workers)."""

    def __init__(self):
        self.evaluations = 0
        self.nontrivial = set()
        self.samples = []
        self.viol = {}  # case_class -> [count, size, violation dict]
        self.stats = {}

    def ev(self, n=1):
        self.evaluations += n

    def nt(self, key):
        self.nontrivial.add(key)

    def stat(self, key, n=1):
        self.stats[key] = self.stats.get(key, 0) + n

    def sample(self, s):
        if len(self.samples) < 5:
            self.samples.append(s)

    def violation(self, case_class, contract, detail, script, size=0):
        cur = self.viol.get(case_class)
        v = {"case_class": case_class, "contract": contract, "detail": detail, "script": script}
        if cur is None:
            self.viol[case_class] = [1, size, v]
        else:
            cur[0] += 1
            if (size, detail) < (cur[1], cur[2]["detail"]):
                cur[1], cur[2] = size, v

    def dump(self):
        return {"evaluations": self.evaluations, "nontrivial": sorted(self.nontrivial), "samples": self.samples,
                "viol": self.viol, "stats": self.stats}

    def merge(self, d):
        self.evaluations += d["evaluations"]
        self.nontrivial.update(d["nontrivial"])
        for s in d["samples"]:
            self.sample(s)
        for k, n in d["stats"].items():
            self.stat(k, n)
        for cc, (count, size, v) in d["viol"].items():
            cur = self.viol.get(cc)
            if cur is None:
                self.viol[cc] = [count, size, v]
            else:
                cur[0] += count
                if (size, v["detail"]) < (cur[1], cur[2]["detail"]):
                    cur[1], cur[2] = size, v

    def violations(self):
        out = []
        for cc in sorted(self.viol):
            count, _, v = self.viol[cc]
            v = dict(v)
            v["detail"] = v["detail"] + "  [%d case(s) of this class in this run; smallest shown]" % count
            out.append(v)
        return out


SCRIPT_HEAD = '''import os, sys, tempfile, shutil
REPO = os.environ.get("PYVC_REPO", "/repo")
sys.path.insert(0, REPO)
try:
    _dn = os.open(os.devnull, os.O_WRONLY); os.dup2(_dn, 2)
except Exception:
    pass
'''


# ======================================================================================================================
# C18 -- kconfcheck: compliant files are left alone, whitespace fixes converge and preserve the meaning
# ======================================================================================================================
#
# Item model of the canonical renderer (kconfcheck's documented style):
#   ("entry", header, attrs, help)            config / menuconfig / comment; attrs: list of logical lines, a logical line
#                                             is a str or a tuple of str (backslash continuation over len(tuple) lines);
#                                             help: None or list of str ("" = blank line, leading blanks = deeper text)
#   ("block", open, attrs, children, close, help)   menu / choice / if (help only for choice)
#   ("line", text)                            source-like statements and '#' comments at the current level
#   ("raw0", text)                            a '#' comment in column 0
#   ("blank",)
# Rendering rules: one level = 4 spaces; attrs one level below the header; continuation lines one level below the line
# they continue; `help` one level below the header and its text two levels below; children of menu/choice/if one level
# below; everything after `mainmenu` one level below it (that is what the checker and the repo's own fixtures do).

C18_PASS_BOUND = 4   # at most 3 rewriting passes (indentation, then tabs/trailing blanks, one more for lines re-indented wrongly
#                      after a continuation), the 4th pass must report OK


def _ind(level):
    return "    " * level


def c18_render(items, level, out):
    """Append (kind, text) physical lines; kind in stmt/attr/cont/helpkw/helpbody/blank/hash."""
    for it in items:
        tag = it[0]
        if tag == "entry":
            _, header, attrs, help_ = it
            out.append(("stmt", _ind(level) + header))
            _render_attrs(attrs, level + 1, out)
            if help_ is not None:
                out.append(("helpkw", _ind(level + 1) + "help"))
                for h in help_:
                    out.append(("blank", "") if h == "" else ("helpbody", _ind(level + 2) + h))
        elif tag == "block":
            _, open_, attrs, children, close, help_ = it
            out.append(("stmt", _ind(level) + open_))
            _render_attrs(attrs, level + 1, out)
            if help_ is not None:
                out.append(("helpkw", _ind(level + 1) + "help"))
                for h in help_:
                    out.append(("blank", "") if h == "" else ("helpbody", _ind(level + 2) + h))
            c18_render(children, level + 1, out)
            out.append(("stmt", _ind(level) + close))
        elif tag == "line":
            out.append(("hash" if it[1].startswith("#") else "stmt", _ind(level) + it[1]))
        elif tag == "raw0":
            out.append(("hash", it[1]))
        elif tag == "blank":
            out.append(("blank", ""))
        else:
            raise ValueError(tag)
    return out


def _render_attrs(attrs, level, out):
    for a in attrs:
        if isinstance(a, tuple):
            for i, seg in enumerate(a):
                last = i == len(a) - 1
                out.append(("attr" if i == 0 else "cont", _ind(level if i == 0 else level + 1) + seg + ("" if last else " \\")))
        elif a.startswith("#"):
            out.append(("hash", _ind(level) + a))
        else:
            out.append(("attr", _ind(level) + a))


def c18_text(lines):
    return "".join(t + "\n" for _, t in lines)


def _E(header, attrs=(), help_=None):
    return ("entry", header, list(attrs), help_)


def _B(open_, attrs, children, close, help_=None):
    return ("block", open_, list(attrs), list(children), close, help_)


def c18_fragments(k):
    """
    dict tag -> (items, extra_files) for fragment number k (all names start with RTC_F<k>_, which keeps the common
    prefix rule satisfied for every combination).  extra_files: name -> text of sourced files (canonical style too).
    """
    P = "RTC_F%d_" % k
    inc = "Kconfig.inc%d" % k
    incfile = {inc: 'config %sINC\n    bool "included"\n    default y\n' % P}
    F = {}
    F["bool"] = ([_E("config %sA" % P, ['bool "a bool"', "default y"], ["One line of help."])], {})
    F["int_range"] = ([_E("config %sA" % P, ['bool "gate"']), ("blank",),
                       _E("config %sB" % P, ['int "an int"', "depends on %sA" % P, "range 0 10", "default 5 if %sA" % P,
                                            "default 3"])], {})
    F["string_hex"] = ([_E("config %sA" % P, ['string "a string"', 'default "two words"']),
                        _E("config %sB" % P, ['hex "a hex"', "default 0x1F", "range 0x0 0xFF"], ["Hex help."])], {})
    F["promptless"] = ([_E("config %sA" % P, ["bool", "default y"]), ("blank",),
                        _E("config %sB" % P, ["int", "default 7 if %sA" % P, "default 1"])], {})
    F["prompt_kw"] = ([_E("config %sA" % P, ['bool "gate"']),
                       _E("config %sB" % P, ["bool", 'prompt "kw prompt" if %sA' % P, "default n"])], {})
    F["help_blank"] = ([_E("config %sA" % P, ['bool "with long help"'],
                           ["First paragraph, line one.", "Line two.", "", "Second paragraph after a blank line.", "",
                            "", "Third after two blank lines."]),
                        _E("config %sB" % P, ['bool "next"'])], {})
    F["help_deeper"] = ([_E("config %sA" % P, ['bool "help with list"'],
                            ["A list:", "  - item one", "    continues deeper", "  - item two", "back to base"]),
                         _E("config %sB" % P, ['bool "next"'])], {})
    F["help_kw"] = ([_E("config %sA" % P, ['bool "help starting with keywords"'],
                        ["if enabled, something happens.", "config files are read.", "menu entries follow.",
                         "endmenu is a word too.", "source code is nice.", "help is near."]),
                     _E("config %sB" % P, ['bool "next"'])], {})
    F["cont2"] = ([_E("config %sA" % P, ['bool "a"']), _E("config %sB" % P, ['bool "b"']),
                   _E("config %sC" % P, ['bool "c"', ("depends on %sA &&" % P, "%sB" % P), "default y"])], {})
    F["cont3"] = ([_E("config %sA" % P, ['bool "a"']), _E("config %sB" % P, ['bool "b"']),
                   _E("config %sC" % P, ['bool "c"', ("depends on %sA &&" % P, "%sB &&" % P, "!%sB" % P), "default y"],
                      ["Help after a continuation."])], {})
    F["cont4"] = ([_E("config %sA" % P, ['bool "a"']), _E("config %sB" % P, ['bool "b"']),
                   _E("config %sC" % P, ['int "c"', ("default 4 if %sA &&" % P, "%sB ||" % P, "%sA ||" % P, "%sB" % P),
                                        ("range 0", "10"), "default 1"])], {})
    F["cont_last"] = ([_E("config %sA" % P, ['bool "a"']),
                       _E("config %sB" % P, ['bool "b"', ("select %sC if" % P, "%sA &&" % P, "%sA" % P)]),
                       _E("config %sC" % P, ["bool"])], {})
    F["menu_nested"] = ([_B('menu "Outer %d"' % k, [], [
        _E("config %sOUT_A" % P, ['bool "a"']),
        _B('menu "Inner %d"' % k, ["depends on %sOUT_A" % P, "visible if %sOUT_A" % P], [
            _E("config %sOUT_IN_B" % P, ['bool "b"'], ["Deep help."]),
            _B('menu "Innermost"', [], [_E("config %sOUT_IN_MOST_C" % P, ['int "c"', "default 1"])], "endmenu"),
        ], "endmenu"),
        _E("config %sOUT_D" % P, ['bool "d"']),
    ], "endmenu")], {})
    F["choice_named"] = ([_B("choice %sMODE" % P, ['prompt "mode"', "default %sMODE_B" % P, "#  a note"], [
        _E("config %sMODE_A" % P, ['bool "mode a"'], ["Member help."]),
        _E("config %sMODE_B" % P, ['bool "mode b"']),
    ], "endchoice"), _E("config %sAFTER" % P, ['bool "after choice"', "depends on %sMODE_B" % P])], {})
    F["choice_unnamed"] = ([_E("config %sG" % P, ['bool "gate"']), _B("choice", ['prompt "unnamed" if %sG' % P, "depends on %sG" % P], [
        _E("config %sSEL_A" % P, ['bool "a"']),
        _E("config %sSEL_B" % P, ['bool "b" if %sG' % P, "depends on %sG" % P]),
    ], "endchoice")], {})
    F["choice_help"] = ([_B("choice %sKIND" % P, ['prompt "kind"'], [
        _E("config %sKIND_X" % P, ['bool "x"']),
    ], "endchoice", ["Help of the choice itself.", "", "Second paragraph."])], {})
    F["if_block"] = ([_E("config %sA" % P, ['bool "a"']), _B("if %sA" % P, [], [
        _E("config %sB" % P, ['bool "b"'], ["In if."]),
        _B("if !%sB" % P, [], [_E("config %sC" % P, ['int "c"', "default 2"])], "endif"),
        _B("choice %sINIF" % P, ['prompt "in if"'], [_E("config %sINIF_A" % P, ['bool "a"']),
                                                     _E("config %sINIF_B" % P, ['bool "b"'])], "endchoice"),
    ], "endif"), _E("config %sD" % P, ['bool "d"'])], {})
    F["comment_entry"] = ([_E("config %sA" % P, ['bool "a"']), _E('comment "a comment entry"', ["depends on %sA" % P]),
                           _E('comment "bare comment"'), _E("config %sB" % P, ['bool "b"'])], {})
    F["menuconfig"] = ([_E("menuconfig %sMC" % P, ['bool "a menuconfig"'], ["MC help."]),
                        _E("config %sMC_SUB" % P, ['bool "sub"', "depends on %sMC" % P]),
                        _B("if %sMC" % P, [], [_E("config %sMC_SUB2" % P, ['int "sub2"', "default 1"])], "endif")], {})
    F["rev_deps"] = ([_E("config %sT" % P, ["bool"]), _E("config %sN" % P, ['int "n"', "default 1"]),
                      _E("config %sS" % P, ['bool "s"', "select %sT" % P, "imply %sU if %sT" % (P, P),
                                           "set %sN=5" % P, "set default %sN=6 if %sT" % (P, P)]),
                      _E("config %sU" % P, ['bool "u"'])], {})
    F["hash_comments"] = ([("line", "# comment at level"), _E("config %sA" % P, ["# between header and type", 'bool "a"',
                                                                              "# after type", "default y"], ["Help."]),
                           ("raw0", "# comment in column 0"), ("raw0", "#"),
                           _E("config %sB" % P, ['bool "b"  # inline comment', "depends on %sA  # another" % P]),
                           ("line", "# trailing comment")], {})
    F["compact"] = ([_E("config %sA" % P, ['bool "a"']), _E("config %sB" % P, ['bool "b"'], ["Help b."]),
                     _E("config %sC" % P, ['bool "c"']), _B('menu "compact %d"' % k, [], [
                         _E("config %sD" % P, ['bool "d"'], ["Help d."]), _E("config %sE" % P, ['bool "e"'])], "endmenu"),
                     _E("config %sF" % P, ['bool "f"'])], {})
    F["blank_lines"] = ([("blank",), ("blank",), _E("config %sA" % P, ['bool "a"']), ("blank",), ("blank",),
                         _E("config %sB" % P, ['bool "b"'], ["Help b.", ""]), ("blank",)], {})
    # source statements of all four kinds in every position relative to their neighbours
    for skw, path, files in (("source", inc, incfile), ("rsource", inc, incfile), ("osource", "Kconfig.absent%d" % k, {}),
                             ("orsource", "Kconfig.absent%d" % k, {}), ("osource", inc, incfile),
                             ("orsource", inc, incfile)):
        present = "p" if files else "a"
        line = ("line", '%s "%s"' % (skw, path))
        F["%s_%s_after_config" % (skw, present)] = ([_E("config %sA" % P, ['bool "a"', "default y"]), line,
                                                    _E("config %sB" % P, ['bool "b"'])], files)
        F["%s_%s_after_help" % (skw, present)] = ([_E("config %sA" % P, ['bool "a"'], ["Help before source."]), line], files)
        F["%s_%s_first" % (skw, present)] = ([line, _E("config %sB" % P, ['bool "b"'])], files)
        F["%s_%s_in_menu" % (skw, present)] = ([_B('menu "S %d"' % k, [], [line, _E("config %sA" % P, ['bool "a"']), ("blank",), line2(line)],
                                                  "endmenu"), line3(line)], files)
        F["%s_%s_after_comment" % (skw, present)] = ([_E('comment "c"'), line, _B("if %sINC" % P, [], [
            _E("menuconfig %sM" % P, ['bool "m"']), line2(line)], "endif")], files)
    F["source_env"] = ([_E("config %sA" % P, ['bool "a"']), ("line", 'source "$RTC_SRC_DIR/%s"' % inc)], incfile)
    return F


def line2(line):
    """A second source of the same (optional/relative) kind must name another file only when the file exists."""
    kw, path = line[1].split(" ", 1)
    if "absent" in path:
        return ("line", '%s "%sx"' % (kw, path.strip('"')))
    return ("line", "# (second source of an existing file would define the option twice)")


def line3(line):
    kw, path = line[1].split(" ", 1)
    if "absent" in path:
        return ("line", '%s "%sy"' % (kw, path.strip('"')))
    return ("line", "# end")


C18_WRAPPERS = ("top", "menu", "menu_if", "deep", "if_top", "nomain")


def c18_wrap(items, wrapper):
    """Return (items, has_mainmenu)."""
    if wrapper == "top":
        return items, True
    if wrapper == "menu":
        return [_B('menu "Wrap"', [], items, "endmenu")], True
    if wrapper == "menu_if":
        return [_E("config RTC_WRAP_GATE", ['bool "wrap gate"', "default y"]),
                _B('menu "Wrap"', ["depends on RTC_WRAP_GATE"], [_B("if RTC_WRAP_GATE", [], items, "endif")], "endmenu")], True
    if wrapper == "deep":
        return [_B('menu "W1"', [], [_B('menu "W2"', [], [_B('menu "W3"', [], items, "endmenu")], "endmenu")], "endmenu")], True
    if wrapper == "if_top":
        return [_E("config RTC_WRAP_GATE", ['bool "wrap gate"', "default y"]), _B("if RTC_WRAP_GATE", [], items, "endif")], True
    if wrapper == "nomain":
        return items, False
    raise ValueError(wrapper)


def c18_file(frag_tags, wrapper):
    """Canonical file for a sequence of fragment tags: returns (lines[(kind,text)], extra_files)."""
    items, files = [], {}
    for k, tag in enumerate(frag_tags, 1):
        its, fl = c18_fragments(k)[tag]
        if items:
            items.append(("blank",))
        items.extend(its)
        files.update(fl)
    items, mainmenu = c18_wrap(items, wrapper)
    out = []
    if mainmenu:
        out.append(("stmt", 'mainmenu "RTC"'))
        out.append(("blank", ""))
        c18_render(items, 1, out)
    else:
        c18_render(items, 0, out)
    return out, files


C18_FRAG_TAGS = tuple(sorted(c18_fragments(1)))


# ---- manglers: whitespace-only defects (indentation width, tabs, trailing blanks) -------------------------------------

def _lead(text):
    n = len(text) - len(text.lstrip(" "))
    return n, text[n:]


def _mk_width(w):
    def f(lines, rng):
        out = []
        for kind, t in lines:
            n, rest = _lead(t)
            out.append((kind, " " * ((n // 4) * w + n % 4) + rest))
        return out
    return f


def _m_tab_level(lines, rng):
    out = []
    for kind, t in lines:
        n, rest = _lead(t)
        out.append((kind, "\t" * (n // 4) + " " * (n % 4) + rest))
    return out


def _m_tab8(lines, rng):
    out = []
    for kind, t in lines:
        n, rest = _lead(t)
        out.append((kind, "\t" * (n // 8) + " " * (n % 8) + rest))
    return out


def _m_tab_mixed(lines, rng):
    out = []
    for i, (kind, t) in enumerate(lines):
        n, rest = _lead(t)
        out.append((kind, ("\t" * (n // 4) + " " * (n % 4) + rest) if (i % 2 and kind not in ("helpbody",)) else t))
    return out


def _m_shift2(lines, rng):
    return [(kind, ("  " + t) if t else t) for kind, t in lines]


def _m_trail_space(lines, rng):
    out = []
    for kind, t in lines:
        if t.endswith("\\"):
            out.append((kind, t))
        elif t == "":
            out.append((kind, "  "))
        else:
            out.append((kind, t + " "))
    return out


def _m_trail_tab(lines, rng):
    out = []
    for i, (kind, t) in enumerate(lines):
        out.append((kind, t + ("\t" if (i % 2 == 0 and t and not t.endswith("\\")) else "")))
    return out


def _m_trail_after_backslash(lines, rng):
    return [(kind, t + ("  " if t.endswith("\\") else "")) for kind, t in lines]


_INNER_KW = ("config ", "menuconfig ", "choice ", "bool ", "int ", "hex ", "string ", "prompt ", "default ", "select ",
             "imply ", "range ", "menu ", "comment ", "source ", "rsource ", "osource ", "orsource ", "if ", "depends on ",
             "visible if ")


def _m_inner_tab(lines, rng):
    out = []
    for kind, t in lines:
        n, rest = _lead(t)
        if kind in ("stmt", "attr"):
            for kw in _INNER_KW:
                if rest.startswith(kw):
                    rest = kw[:-1] + "\t" + rest[len(kw):]
                    break
        out.append((kind, " " * n + rest))
    return out


def _m_jitter(lines, rng):
    """Every statement line gets an arbitrary indentation; a help body moves as one block and stays below its keyword."""
    out = []
    i = 0
    while i < len(lines):
        kind, t = lines[i]
        if kind == "helpkw":
            n = rng.randrange(0, 12)
            out.append((kind, " " * n + t.lstrip(" ")))
            j = i + 1
            block = []
            while j < len(lines) and lines[j][0] in ("helpbody", "blank"):
                block.append(lines[j])
                j += 1
            while block and block[-1][0] == "blank":
                block.pop()
                j -= 1
            base = min([_lead(b)[0] for kk, b in block if kk == "helpbody"] or [0])
            new_base = n + 1 + rng.randrange(0, 6)
            for kk, b in block:
                out.append((kk, (" " * (new_base + _lead(b)[0] - base) + b.lstrip(" ")) if kk == "helpbody" else b))
            i = j
            continue
        if kind in ("stmt", "attr", "cont", "hash") and t:
            out.append((kind, " " * rng.randrange(0, 14) + t.lstrip(" ")))
        else:
            out.append((kind, t))
        i += 1
    return out


def _compose(*fs):
    def f(lines, rng):
        for g in fs:
            lines = g(lines, rng)
        return lines
    return f


C18_MANGLERS = {
    "w1": _mk_width(1), "w2": _mk_width(2), "w3": _mk_width(3), "w5": _mk_width(5), "w6": _mk_width(6), "w8": _mk_width(8),
    "tab_level": _m_tab_level, "tab8": _m_tab8, "tab_mixed": _m_tab_mixed, "shift2": _m_shift2,
    "trail_space": _m_trail_space, "trail_tab": _m_trail_tab, "trail_after_backslash": _m_trail_after_backslash,
    "inner_tab": _m_inner_tab, "jitter": _m_jitter,
    "w2+trail": _compose(_mk_width(2), _m_trail_space), "tab_level+trail_tab": _compose(_m_tab_level, _m_trail_tab),
    "w8+inner_tab": _compose(_mk_width(8), _m_inner_tab),
}


# ---- observation of "the configuration both parsers read" ---------------------------------------------------------

def _ex(e):
    return K.expr_str(e) if e is not None else None


def tree_dump(kconf):
    """
    (structure, helps): structure = one record per menu node in node_iter() order with everything the parser produced
    for it (except help), helps = list of help texts in the same order.
    """
    structure, helps = [], []
    for node in kconf.node_iter():
        item = node.item
        depth, p = 0, node.parent
        while p is not None:
            depth += 1
            p = p.parent
        if item is K.MENU:
            kind = "menu"
        elif item is K.COMMENT:
            kind = "comment"
        elif isinstance(item, K.Choice):
            kind = "choice"
        else:
            kind = "symbol"
        rec = [depth, kind, getattr(item, "name", None),
               (node.prompt[0], _ex(node.prompt[1])) if node.prompt else None, _ex(node.dep),
               os.path.basename(node.filename or ""), node.linenr, bool(getattr(node, "is_menuconfig", False))]
        if kind == "menu":
            rec.append(_ex(node.visibility))
        if kind in ("symbol", "choice"):
            rec.append(K.TYPE_TO_STR.get(item.orig_type))
            rec.append([(_ex(v), _ex(c)) for v, c in node.defaults])
            rec.append([(_ex(t), _ex(c)) for t, c in node.selects])
            rec.append([(_ex(t), _ex(c)) for t, c in node.implies])
            rec.append([(_ex(lo), _ex(hi), _ex(c)) for lo, hi, c in node.ranges])
            rec.append([tuple(_ex(x) if not isinstance(x, (str, int, type(None))) else x for x in s) for s in node.sets])
            rec.append([tuple(_ex(x) if not isinstance(x, (str, int, type(None))) else x for x in s) for s in node.weak_sets])
        structure.append(rec)
        helps.append(node.help)
    return structure, helps


def c18_load(dirpath, version):
    """Fresh Kconfig of <dirpath>/Kconfig; returns (structure, helps, snapshot) or ('error', text)."""
    G.reset_library_report()
    try:
        with G.controlled_env({"srctree": dirpath, "RTC_SRC_DIR": dirpath}):
            kconf = K.Kconfig(os.path.join(dirpath, "Kconfig"), parser_version=version)
        st, hp = tree_dump(kconf)
        return (st, hp, G.snapshot(kconf))
    except BaseException as e:  # noqa: BLE001 - the library uses SystemExit as well
        if isinstance(e, KeyboardInterrupt):
            raise
        return ("error", "%s: %s" % (type(e).__name__, str(e)[:200]))


_CAPTURE = {"fd": None, "path": None}


def _capture_fd2():
    """A per-process scratch file onto which fd 2 is switched while a checked function runs (its log is an observable)."""
    if _CAPTURE["fd"] is None or _CAPTURE.get("pid") != os.getpid():
        fd, path = tempfile.mkstemp(prefix="rtc_tools_err")
        os.unlink(path)
        _CAPTURE.update(fd=fd, pid=os.getpid())
    return _CAPTURE["fd"]


def _call_captured(fn, *args):
    """Run fn(*args) with fd 1 and fd 2 captured: returns (result, exception text or None, captured stderr text)."""
    cap = _capture_fd2()
    os.ftruncate(cap, 0)
    os.lseek(cap, 0, os.SEEK_SET)
    try:
        sys.stderr.flush()
        sys.stdout.flush()
    except Exception:  # noqa: BLE001
        pass
    saved = os.dup(2)
    saved1 = os.dup(1)
    os.dup2(cap, 2)
    os.dup2(cap, 1)
    res, exc = None, None
    try:
        try:
            res = fn(*args)
        except BaseException as e:  # noqa: BLE001 - log.die() raises SystemExit
            if isinstance(e, KeyboardInterrupt):
                raise
            exc = "%s: %s" % (type(e).__name__, str(e)[:300])
    finally:
        try:
            sys.stderr.flush()
            sys.stdout.flush()
        except Exception:  # noqa: BLE001
            pass
        os.dup2(saved, 2)
        os.dup2(saved1, 1)
        os.close(saved)
        os.close(saved1)
    os.lseek(cap, 0, os.SEEK_SET)
    chunks = []
    while True:
        b = os.read(cap, 65536)
        if not b:
            break
        chunks.append(b)
    return res, exc, re.sub(r"\x1b\[[0-9;]*m", "", b"".join(chunks).decode("utf-8", "replace"))


def _validate(path, replace):
    """Call the real validate_file; returns (result, exception text or None, log text)."""
    from kconfcheck.core import validate_file
    return _call_captured(validate_file, path, False, replace)


def _msg_class(log_text):
    """Stable class of the checker's first complaint (numbers and names removed)."""
    for line in log_text.splitlines():
        m = re.search(r":\d+: (.*)$", line)
        if m and ("ERROR" in line or "error" in line.lower() or True):
            msg = m.group(1)
            msg = re.sub(r"'[^']*'|\"[^\"]*\"", "<x>", msg)
            msg = re.sub(r"\b[A-Z][A-Z0-9_]{2,}\b", "<NAME>", msg)
            msg = re.sub(r"\d+", "<n>", msg)
            return msg.strip()[:80]
    return "no-message"


C18_SCRIPT = SCRIPT_HEAD + '''
from kconfcheck.core import validate_file
import esp_kconfiglib.core as K
FILES = %(files)r        # file name -> text; "Kconfig" (or "sdkconfig.rename") is the checked file
MAIN = %(main)r
CANONICAL = %(canonical)r   # None, or the canonical (documented style) text the file was mangled from
MODE = %(mode)r          # "compliant" | "mangled"
BOUND = %(bound)d
d = tempfile.mkdtemp(prefix="c18rep")
bad = []
def dump(v):
    import io
    os.environ["srctree"] = d; os.environ["RTC_SRC_DIR"] = d
    try:
        k = K.Kconfig(os.path.join(d, "Kconfig"), parser_version=v)
    except BaseException as e:
        return "load error: %%s" %% type(e).__name__
    out = []
    for n in k.node_iter():
        it = n.item
        out.append((getattr(it, "name", None) if it not in (K.MENU, K.COMMENT) else it, n.prompt and (n.prompt[0], K.expr_str(n.prompt[1])),
                    K.expr_str(n.dep), n.linenr, n.help, [(K.expr_str(a), K.expr_str(b)) for a, b in getattr(n, "defaults", [])]))
    return out, [(s.name, s.str_value, s.visibility) for s in k.unique_defined_syms]
try:
    for name, text in FILES.items():
        with open(os.path.join(d, name), "w", newline="\\n") as f:
            f.write(text)
    p = os.path.join(d, MAIN)
    def run(replace):
        try:
            return validate_file(p, False, replace)
        except BaseException as e:
            return "exception %%s: %%s" %% (type(e).__name__, e)
    if MODE == "compliant":
        for replace in (False, True):
            r = run(replace)
            if r is not True: bad.append("validate_file(replace=%%s) returned %%r for a compliant file" %% (replace, r))
            if open(p, newline="").read() != FILES[MAIN]: bad.append("file changed (replace=%%s)" %% replace)
            if os.path.exists(p + ".new"): bad.append(".new left behind (replace=%%s)" %% replace); os.remove(p + ".new")
    else:
        before = {v: dump(v) for v in (1, 2)} if MAIN == "Kconfig" else {}
        ok = False
        for i in range(BOUND):
            r = run(True)
            if os.path.exists(p + ".new"): bad.append(".new left behind after --replace pass %%d" %% (i + 1))
            if r is True: ok = True; break
        if not ok: bad.append("not reported OK within %%d --replace passes (last result %%r)" %% (BOUND, r))
        fixed = open(p, newline="").read()
        r = run(True)
        if ok and (r is not True or open(p, newline="").read() != fixed): bad.append("a further pass is not the identity")
        for v, b in before.items():
            if isinstance(b, str): continue
            a = dump(v)
            if a != b:
                bad.append("parser %%d reads the fixed file differently from the original" %% v)
                if not isinstance(a, str):
                    for x, y in zip(b[0] + b[1], a[0] + a[1]):
                        if x != y: bad.append("   original: %%r\\n   fixed   : %%r" %% (x, y)); break
        if bad: print("--- original ---\\n" + FILES[MAIN] + "--- after fixing ---\\n" + fixed)
finally:
    shutil.rmtree(d, ignore_errors=True)
for b in bad: print("VIOLATION:", b)
sys.exit(1 if bad else 0)
'''


def _c18_script(files, main, mode, canonical=None):
    return C18_SCRIPT % {"files": files, "main": main, "mode": mode, "bound": C18_PASS_BOUND, "canonical": canonical}


def _first_diff(a, b):
    for i, (x, y) in enumerate(zip(a, b)):
        if x != y:
            return "#%d: %r -> %r" % (i, x, y)
    if len(a) != len(b):
        return "length %d -> %d" % (len(a), len(b))
    return ""


def c18_check_compliant(acc, case_id, text, files, main="Kconfig", tags=()):
    """validate_file on a compliant file: reported OK, byte-identical, no .new -- without and with replace."""
    d = tempfile.mkdtemp(prefix="rtc18_")
    try:
        for name, t in files.items():
            _write(os.path.join(d, name), t)
        path = os.path.join(d, main)
        _write(path, text)
        listing = sorted(os.listdir(d))
        problems = []
        for replace in (False, True):
            res, exc, logtext = _validate(path, replace)
            acc.ev()
            if exc is not None:
                problems.append(("exception", "validate_file(replace=%s) raised %s" % (replace, exc)))
                break
            if res is not True:
                problems.append(("flagged:" + _msg_class(logtext), "validate_file(replace=%s) returned %r for a file in the documented style; checker said: %s"
                                 % (replace, res, " | ".join(x.strip() for x in logtext.splitlines() if re.search(r":\d+: ", x))[:300])))
            if _read(path) != text:
                problems.append(("rewritten", "file bytes changed by validate_file(replace=%s)" % replace))
                _write(path, text)
            if os.path.exists(path + ".new"):
                problems.append(("new_left", "%s.new left behind (replace=%s)" % (main, replace)))
                os.remove(path + ".new")
            if sorted(os.listdir(d)) != listing:
                problems.append(("dir_changed", "directory listing changed: %r" % sorted(os.listdir(d))))
        return problems
    finally:
        shutil.rmtree(d, ignore_errors=True)


def c18_check_mangled(acc, text, files, want_meaning=True):
    """
    Repeated validate_file(replace=True) on a file with whitespace-only defects.  Returns (problems, info) where
    problems is a list of (symptom, detail).
    """
    d = tempfile.mkdtemp(prefix="rtc18_")
    problems = []
    info = {"passes": None}
    try:
        for name, t in files.items():
            _write(os.path.join(d, name), t)
        path = os.path.join(d, "Kconfig")
        _write(path, text)
        before = {v: c18_load(d, v) for v in (1, 2)} if want_meaning else {}
        ok = False
        res = None
        for i in range(C18_PASS_BOUND):
            res, exc, logtext = _validate(path, True)
            acc.ev()
            if exc is not None:
                problems.append(("exception", "validate_file(replace=True) raised %s in pass %d" % (exc, i + 1)))
                return problems, info
            if os.path.exists(path + ".new"):
                problems.append(("new_left", ".new left behind by --replace pass %d" % (i + 1)))
                os.remove(path + ".new")
            if res is True:
                ok = True
                info["passes"] = i + 1
                break
        fixed = _read(path)
        info["fixed"] = fixed
        if not ok:
            problems.append(("no_convergence", "not reported OK within %d --replace passes" % C18_PASS_BOUND))
        else:
            res, exc, logtext = _validate(path, True)
            acc.ev()
            if exc is not None or res is not True or _read(path) != fixed:
                problems.append(("not_fixed_point", "a further --replace pass on the file reported OK is not the identity (%r, %s)" % (res, exc)))
            res, exc, logtext = _validate(path, False)
            acc.ev()
            if exc is not None or res is not True or os.path.exists(path + ".new") or _read(path) != fixed:
                problems.append(("not_fixed_point", "plain check of the fixed file: result %r, exception %s, .new exists %s"
                                 % (res, exc, os.path.exists(path + ".new"))))
        _write(path, fixed)
        for v, b in before.items():
            acc.ev()
            if b[0] == "error":
                info.setdefault("orig_unparsable", []).append(v)
                continue
            a = c18_load(d, v)
            if a[0] == "error":
                problems.append(("meaning_parse_error", "parser %d reads the original but not the fixed file: %s" % (v, a[1])))
            elif a[0] != b[0]:
                problems.append(("meaning_structure", "parser %d: node tree differs, first difference %s" % (v, _first_diff(b[0], a[0]))))
            elif a[2] != b[2]:
                problems.append(("meaning_values", "parser %d: snapshot differs: %s" % (v, _first_diff(sorted(b[2].items()), sorted(a[2].items())))))
            elif a[1] != b[1]:
                problems.append(("meaning_help", "parser %d: help text differs, first difference %s" % (v, _first_diff(b[1], a[1]))))
        return problems, info
    finally:
        shutil.rmtree(d, ignore_errors=True)


# ---- mechanism detector: which documented weak spot of the checker does a mangled file touch? -------------------------
# Used ONLY to give violations a stable, explanatory class id; it never decides whether something is a violation.

_KW_LEAD = re.compile(r"^(menu(?!config)|mainmenu|choice|config|menuconfig|comment|help|if|source|osource|rsource|orsource|endmenu|endchoice|endif)")


def c18_mechanisms(canon_lines, mangled_lines):
    """dict mechanism -> sorted list of the line indices that exhibit it."""
    mech = {}

    def add(m, ixs):
        mech.setdefault(m, set()).update(ixs)

    n = len(canon_lines)
    i = 0
    while i < n:
        kind, ct = canon_lines[i]
        mt = mangled_lines[i][1]
        cn = len(ct) - len(ct.lstrip(" "))
        mn = len(mt) - len(mt.lstrip(" \t"))
        if kind == "cont" and mn != cn:
            add("misindented-continuation", [i])
        if kind == "helpkw":
            base = cn + 4
            j = i + 1
            block = []
            while j < n and canon_lines[j][0] in ("helpbody", "blank"):
                if canon_lines[j][0] == "helpbody":
                    block.append(j)
                j += 1
            under = [x for x in block if len(mangled_lines[x][1]) - len(mangled_lines[x][1].lstrip(" \t")) < base]
            if under:
                if any(_KW_LEAD.match(mangled_lines[x][1].strip()) for x in under):
                    add("help-line-starts-with-keyword", block)
                elif any(len(canon_lines[x][1]) - len(canon_lines[x][1].lstrip(" ")) > base for x in block):
                    add("help-relative-indent", block)
                else:
                    add("help-body-under-level", block)
            # statements that follow the help text (after blank lines / comments) at or beyond the help level
            k = j
            while k < n and canon_lines[k][0] in ("blank", "hash"):
                k += 1
            if block and k < n:
                mk = mangled_lines[k][1]
                if len(mk) - len(mk.lstrip(" \t")) >= base:
                    add("statement-after-help-at-help-level", [k])
            i = j
            continue
        i += 1
    return {m: sorted(ix) for m, ix in mech.items()}


C18_MECH_PRIORITY = ("help-line-starts-with-keyword", "misindented-continuation", "statement-after-help-at-help-level",
                     "help-relative-indent", "help-body-under-level")


def _norm_help(helps):
    return [None if h is None else "\n".join(x.rstrip() for x in h.expandtabs().split("\n")) for h in helps]


def _help_shape(helps):
    return [None if h is None else [x.strip() for x in h.split("\n")] for h in helps]


def _c18_eval_mangled(acc, d, text, canon, meaning=True):
    """
    The contract proper, on directory d (sourced files already there).  Returns None if the precondition does not hold
    (the file does not mean the same as the canonical one under any parser), else (problems, passes).
    """
    path = os.path.join(d, "Kconfig")
    if meaning:
        _write(path, canon)
        res, exc, logtext = _validate(path, False)
        if os.path.exists(path + ".new"):
            os.remove(path + ".new")
        if res is not True:
            return None      # the canonical file itself is (wrongly) flagged: reported by the compliant-file contract
        ref = {v: c18_load(d, v) for v in (1, 2)}
        _write(path, text)
        before = {v: c18_load(d, v) for v in (1, 2)}
        in_scope = [v for v in (1, 2) if ref[v][0] != "error" and before[v][0] != "error"
                    and before[v][0] == ref[v][0] and before[v][2] == ref[v][2] and _help_shape(before[v][1]) == _help_shape(ref[v][1])]
        if not in_scope:
            return None
    else:
        _write(path, text)
        in_scope, before = [], {}
    problems = []
    ok, res, passes = False, None, 0
    for i in range(C18_PASS_BOUND):
        res, exc, logtext = _validate(path, True)
        acc.ev()
        passes = i + 1
        if exc is not None:
            problems.append(("abort", "validate_file(replace=True) raised %s in pass %d; log: %s"
                             % (exc, i + 1, " | ".join(x.strip() for x in logtext.splitlines() if "rror" in x or "FATAL" in x or "stack" in x)[-300:])))
            break
        if os.path.exists(path + ".new"):
            problems.append(("new_left", ".new left behind by --replace pass %d" % (i + 1)))
            os.remove(path + ".new")
        if res is True:
            ok = True
            break
    if os.path.exists(path + ".new"):
        os.remove(path + ".new")
    fixed = _read(path)
    if not ok and not problems:
        problems.append(("no_convergence", "not reported OK within %d --replace passes" % C18_PASS_BOUND))
    if ok:
        res, exc, logtext = _validate(path, True)
        acc.ev()
        if exc is not None or res is not True or _read(path) != fixed:
            problems.append(("not_fixed_point", "a further --replace pass on the file reported OK is not the identity (%r, %s)" % (res, exc)))
        res, exc, logtext = _validate(path, False)
        acc.ev()
        if exc is not None or res is not True or os.path.exists(path + ".new") or _read(path) != fixed:
            problems.append(("not_fixed_point", "plain check of the fixed file: result %r, exception %s, .new exists %s"
                             % (res, exc, os.path.exists(path + ".new"))))
        if os.path.exists(path + ".new"):
            os.remove(path + ".new")
        _write(path, fixed)
        for v in in_scope:
            acc.ev()
            b = before[v]
            a = c18_load(d, v)
            if a[0] == "error":
                problems.append(("meaning_parse_error", "parser %d reads the original but not the fixed file: %s" % (v, a[1])))
            elif a[0] != b[0]:
                problems.append(("meaning_structure", "parser %d: node tree differs, first difference %s" % (v, _first_diff(b[0], a[0]))))
            elif a[2] != b[2]:
                problems.append(("meaning_values", "parser %d: snapshot differs: %s" % (v, _first_diff(sorted(b[2].items()), sorted(a[2].items())))))
            elif _norm_help(a[1]) != _norm_help(b[1]):
                problems.append(("meaning_help", "parser %d: help text differs, first difference %s" % (v, _first_diff(_norm_help(b[1]), _norm_help(a[1])))))
    return problems, (passes if ok else None)


def c18_case_mangled(acc, frag_tags, wrapper, mname, rng_seed):
    """One mangled case; returns list of (class, contract, detail, script, size)."""
    lines, files = c18_file(frag_tags, wrapper)
    canon = c18_text(lines)
    mlines = C18_MANGLERS[mname](lines, random.Random(rng_seed))
    text = c18_text(mlines)
    if text == canon:
        return []
    d = tempfile.mkdtemp(prefix="rtc18_")
    out = []
    try:
        for name, t in files.items():
            _write(os.path.join(d, name), t)
        r = _c18_eval_mangled(acc, d, text, canon)
        if r is None:
            acc.stat("c18:mangled_out_of_scope:" + mname)
            return []
        problems, passes = r
        if passes is not None:
            acc.nt("c18m:%s:%s:%s" % ("+".join(frag_tags), wrapper, mname))
            acc.stat("c18:passes=%d" % passes)
        if problems:
            mech = c18_mechanisms(lines, mlines)
            allfiles = dict(files)
            allfiles["Kconfig"] = text
            script = _c18_script(allfiles, "Kconfig", "mangled", canon)
            seen = set()
            scratch = _Acc()
            for sym, detail in problems:
                if sym in seen:
                    continue
                seen.add(sym)
                # which mechanism is causal?  restore the lines exhibiting it to the canonical text and re-evaluate
                cause = None
                cands = [m for m in C18_MECH_PRIORITY if m in mech]
                if len(cands) == 1:
                    cause = cands[0]
                elif sym == "meaning_help" and "help-relative-indent" in cands:
                    cause = "help-relative-indent"
                for m in (cands if cause is None else ()):
                    restored = list(mlines)
                    for i in mech[m]:
                        restored[i] = lines[i]
                    r2 = _c18_eval_mangled(scratch, d, c18_text(restored), canon, meaning=sym.startswith("meaning"))
                    if r2 is not None and sym not in [x for x, _ in r2[0]]:
                        cause = m
                        break
                if cause is None:
                    cause = "joint[%s]" % "+".join(cands) if cands else "unexplained[%s]" % mname
                cc = "c18:mangled:%s:%s" % (sym, cause)
                out.append((cc, "validate_file(replace=True) repeated: converges within %d passes to a fixed point that is reported OK and "
                            "that parser 1 and 2 read like the original" % C18_PASS_BOUND,
                            "fragments=%s wrapper=%s mangling=%s (weak spots touched: %s): %s"
                            % ("+".join(frag_tags), wrapper, mname, ",".join(sorted(mech)), detail), script, len(text)))
        return out
    finally:
        shutil.rmtree(d, ignore_errors=True)


def c18_case_compliant(acc, frag_tags, wrapper):
    lines, files = c18_file(frag_tags, wrapper)
    text = c18_text(lines)
    problems = c18_check_compliant(acc, None, text, files)
    acc.nt("c18c:%s:%s" % ("+".join(frag_tags), wrapper))
    out = []
    if problems:
        allfiles = dict(files)
        allfiles["Kconfig"] = text
        script = _c18_script(allfiles, "Kconfig", "compliant")
        seen = set()
        for sym, detail in problems:
            if sym in seen:
                continue
            seen.add(sym)
            if sym.startswith("flagged:"):
                first = [s for s, _ in problems if s.startswith("flagged:")][0]
                cc = "c18:compliant:" + first
            else:
                flagged = [s for s, _ in problems if s.startswith("flagged:")]
                cc = "c18:compliant:%s%s" % (sym, (":" + flagged[0][8:]) if flagged else "")
            out.append((cc, "validate_file: a file in the documented style is reported OK, left byte-identical, no .new remains",
                        "fragments=%s wrapper=%s: %s" % ("+".join(frag_tags), wrapper, detail), script, len(text)))
    return out


# ---- sdkconfig.rename files -------------------------------------------------------------------------------------------

def c18_rename_files():
    """(tag, canonical text) of compliant sdkconfig.rename files."""
    return [
        ("plain", "CONFIG_RTC_OLD_A CONFIG_RTC_NEW_A\nCONFIG_RTC_OLD_B CONFIG_RTC_NEW_B\n"),
        ("comments_blank", "# a comment\n\nCONFIG_RTC_OLD_A CONFIG_RTC_NEW_A\n\n# another\nCONFIG_RTC_OLD_B CONFIG_RTC_NEW_B\n"),
        ("inversion", "CONFIG_RTC_OLD_A !CONFIG_RTC_NEW_A\nCONFIG_RTC_OLD_B CONFIG_RTC_NEW_B\n"),
        ("two_aliases", "CONFIG_RTC_OLD_A CONFIG_RTC_NEW_A\nCONFIG_RTC_OLDER_A CONFIG_RTC_NEW_A\nCONFIG_RTC_INV_A !CONFIG_RTC_NEW_A\n"),
        ("inline_comment", "CONFIG_RTC_OLD_A CONFIG_RTC_NEW_A # why\nCONFIG_RTC_OLD_B    CONFIG_RTC_NEW_B\n"),
        ("lowercase_old", "CONFIG_rtc_old_a CONFIG_RTC_NEW_A\n"),
    ]


def _m_ren_trail(text):
    return "".join((ln + " \n") if ln else "  \n" for ln in text.split("\n")[:-1])


def _m_ren_tabsep(text):
    return "".join(re.sub(r"(?<=\S) +(?=\S)", "\t", ln, count=1) + "\n" if not ln.startswith("#") else ln + "\n" for ln in text.split("\n")[:-1])


def _m_ren_trail_tab(text):
    return "".join((ln + "\t\n") for ln in text.split("\n")[:-1])


C18_RENAME_MANGLERS = {"trail_space": _m_ren_trail, "tab_separator": _m_ren_tabsep, "trail_tab": _m_ren_trail_tab}

_REN_KCONFIG = 'mainmenu "R"\n\n    config RTC_NEW_A\n        bool "a"\n        default y\n\n    config RTC_NEW_B\n        bool "b"\n'


def _rename_reading(dirpath, version):
    """What parser <version> makes of <dirpath>/sdkconfig.rename: (old->new, inversions) or ('error', text)."""
    G.reset_library_report()
    try:
        with G.controlled_env({"srctree": dirpath}):
            kconf = K.Kconfig(os.path.join(dirpath, "Kconfig"), parser_version=version)
            kconf.load_rename_files([os.path.join(dirpath, "sdkconfig.rename")])
        dep = None
        for attr in ("deprecated_options", "_deprecated_options", "deprecated"):
            dep = getattr(kconf, attr, None)
            if dep is not None and hasattr(dep, "r_dic"):
                break
        if dep is None or not hasattr(dep, "r_dic"):
            raise RuntimeError("cannot find DeprecatedOptions on Kconfig")
        return (sorted(dep.r_dic.items()), sorted(dep.inversions))
    except BaseException as e:  # noqa: BLE001
        if isinstance(e, KeyboardInterrupt):
            raise
        return ("error", "%s: %s" % (type(e).__name__, str(e)[:200]))


def c18_rename_cases(acc):
    out = []
    for tag, canon in c18_rename_files():
        problems = c18_check_compliant(acc, None, canon, {}, main="sdkconfig.rename")
        acc.nt("c18r:" + tag)
        for sym, detail in problems:
            out.append(("c18:rename:compliant:" + sym, "validate_file(sdkconfig.rename): compliant file reported OK, byte-identical, no .new",
                        "rename file %s: %s" % (tag, detail), _c18_script({"sdkconfig.rename": canon}, "sdkconfig.rename", "compliant"), len(canon)))
        for mname, m in sorted(C18_RENAME_MANGLERS.items()):
            text = m(canon)
            if text == canon:
                continue
            d = tempfile.mkdtemp(prefix="rtc18r_")
            try:
                _write(os.path.join(d, "Kconfig"), _REN_KCONFIG)
                path = os.path.join(d, "sdkconfig.rename")
                _write(path, canon)
                ref = {v: _rename_reading(d, v) for v in (1, 2)}
                _write(path, text)
                before = {v: _rename_reading(d, v) for v in (1, 2)}
                in_scope = [v for v in (1, 2) if before[v][0] != "error" and before[v] == ref[v]]
                if not in_scope:
                    acc.stat("c18:rename_out_of_scope:" + mname)
                    continue
                probs = []
                ok = False
                for i in range(C18_PASS_BOUND):
                    res, exc, logtext = _validate(path, True)
                    acc.ev()
                    if exc is not None:
                        probs.append(("abort", "validate_file raised %s" % exc))
                        break
                    if os.path.exists(path + ".new"):
                        probs.append(("new_left", ".new left behind by --replace"))
                        os.remove(path + ".new")
                    if res is True:
                        ok = True
                        break
                if not ok and not probs:
                    probs.append(("no_convergence", "not reported OK within %d passes" % C18_PASS_BOUND))
                fixed = _read(path)
                if ok:
                    acc.nt("c18rm:%s:%s" % (tag, mname))
                    res, exc, logtext = _validate(path, True)
                    acc.ev()
                    if res is not True or _read(path) != fixed:
                        probs.append(("not_fixed_point", "further pass not the identity"))
                    for v in in_scope:
                        acc.ev()
                        if _rename_reading(d, v) != before[v]:
                            probs.append(("meaning", "parser %d reads other renames: %r -> %r" % (v, before[v], _rename_reading(d, v))))
                for sym, detail in probs:
                    out.append(("c18:rename:mangled:%s:%s" % (sym, mname), "validate_file(sdkconfig.rename, replace=True) repeated: converges, fixed point, same renames",
                                "rename file %s mangling %s: %s" % (tag, mname, detail),
                                _c18_script({"sdkconfig.rename": text, "Kconfig": _REN_KCONFIG}, "sdkconfig.rename", "mangled"), len(text)))
            finally:
                shutil.rmtree(d, ignore_errors=True)
    return out


# ---- CLI contract ---------------------------------------------------------------------------------------------------

def _run_cli(args, cwd, env_extra=None, timeout=120):
    env = dict(os.environ)
    env["PYTHONPATH"] = REPO + (os.pathsep + env["PYTHONPATH"] if env.get("PYTHONPATH") else "")
    env.pop("IDF_PATH", None)
    env.update(env_extra or {})
    p = subprocess.run([PY, "-m", "kconfcheck"] + list(args), cwd=cwd, env=env, stdout=subprocess.PIPE, stderr=subprocess.PIPE,
                       timeout=timeout)
    txt = (p.stdout + p.stderr).decode("utf-8", "replace")
    return p.returncode, re.sub(r"\x1b\[[0-9;]*m", "", txt)


C18_CLI_SCRIPT = SCRIPT_HEAD + '''
import subprocess
DIRS = %(dirs)r     # list of {file name -> text}; each dict is one directory whose "Kconfig" is passed to the CLI
MODE = %(mode)r     # "compliant" | "mangled"
BOUND = %(bound)d
root = tempfile.mkdtemp(prefix="c18cli")
bad = []
try:
    paths = []
    for i, files in enumerate(DIRS):
        d = os.path.join(root, "d%%d" %% i); os.makedirs(d)
        for n, t in files.items():
            open(os.path.join(d, n), "w", newline="\\n").write(t)
        paths.append(os.path.join(d, "Kconfig"))
    env = dict(os.environ, PYTHONPATH=REPO)
    def cli(*a):
        p = subprocess.run([sys.executable, "-m", "kconfcheck"] + list(a) + paths, cwd=root, env=env, stdout=subprocess.PIPE, stderr=subprocess.STDOUT)
        return p.returncode, p.stdout.decode()
    if MODE == "compliant":
        for extra in ((), ("--replace",)):
            rc, out = cli(*extra)
            if rc != 0: bad.append("exit status %%d for compliant files %%s\\n%%s" %% (rc, extra, out[-600:]))
            for p_, files in zip(paths, DIRS):
                if open(p_, newline="").read() != files["Kconfig"]: bad.append("%%s changed" %% p_)
                if os.path.exists(p_ + ".new"): bad.append("%%s.new left behind" %% p_); os.remove(p_ + ".new")
    else:
        rc = None
        for i in range(BOUND):
            rc, out = cli("--replace")
            if rc == 0: break
        if rc != 0: bad.append("exit status still %%r after %%d --replace runs\\n%%s" %% (rc, BOUND, out[-600:]))
        snap = [open(p_, newline="").read() for p_ in paths]
        rc, out = cli("--replace")
        if rc != 0 or snap != [open(p_, newline="").read() for p_ in paths]: bad.append("further --replace run is not the identity")
        if any(os.path.exists(p_ + ".new") for p_ in paths): bad.append(".new left behind")
finally:
    shutil.rmtree(root, ignore_errors=True)
for b in bad: print("VIOLATION:", b)
sys.exit(1 if bad else 0)
'''


def c18_cli_case(acc, which):
    """
    CLI `python -m kconfcheck` on several files in one invocation.
    which = ("compliant", [ (tags, wrapper), ... ]) or ("mangled", [ (tags, wrapper, mangler), ... ])
    """
    mode, specs = which
    out = []
    root = tempfile.mkdtemp(prefix="rtc18cli_")
    try:
        paths, texts, dirs, inproc = [], [], [], []
        for i, sp in enumerate(specs):
            lines, files = c18_file(sp[0], sp[1])
            if mode == "mangled":
                lines = C18_MANGLERS[sp[2]](lines, random.Random(1))
            text = c18_text(lines)
            d = os.path.join(root, "d%d" % i)
            for name, t in files.items():
                _write(os.path.join(d, name), t)
            _write(os.path.join(d, "Kconfig"), text)
            paths.append(os.path.join(d, "Kconfig"))
            texts.append(text)
            allf = dict(files)
            allf["Kconfig"] = text
            dirs.append(allf)
        script = C18_CLI_SCRIPT % {"dirs": dirs, "mode": mode, "bound": C18_PASS_BOUND}
        contract = ("python -m kconfcheck [--replace] <files>: exit status 0 and `<file>: OK` for every compliant file, bytes unchanged, no .new; "
                    "for whitespace-only defects exit status 0 within %d --replace runs, then identity, and the same bytes as "
                    "validate_file(replace=True) produces in-process" % C18_PASS_BOUND)
        if mode == "compliant":
            for extra in ([], ["--replace"]):
                rc, txt = _run_cli(extra + paths, root)
                acc.ev()
                probs = []
                if rc != 0:
                    probs.append("exit status %d" % rc)
                for p_, t in zip(paths, texts):
                    if ("%s: OK" % p_) not in txt.replace("\n", ""):
                        probs.append("no `OK` line for %s" % os.path.relpath(p_, root))
                    if _read(p_) != t:
                        probs.append("%s changed" % os.path.relpath(p_, root))
                        _write(p_, t)
                    if os.path.exists(p_ + ".new"):
                        probs.append("%s.new left behind" % os.path.relpath(p_, root))
                        os.remove(p_ + ".new")
                if probs:
                    classes = sorted(set(_msg_class(x) for x in txt.splitlines() if re.search(r":\d+: ", x))) or ["no-message"]
                    for m in classes:
                        out.append(("c18:cli:compliant:" + m, contract, "kconfcheck %s on %d compliant files: %s; output: %s"
                                    % (" ".join(extra), len(paths), "; ".join(probs[:4]), txt[-300:]), script, sum(map(len, texts))))
                else:
                    acc.nt("c18cli:compliant:%s:%d" % ("r" if extra else "c", len(paths)))
        else:
            # in-process reference: the same loop with validate_file on copies
            ref = []
            for i, t in enumerate(texts):
                d2 = os.path.join(root, "r%d" % i)
                shutil.copytree(os.path.join(root, "d%d" % i), d2)
                p2 = os.path.join(d2, "Kconfig")
                for _ in range(C18_PASS_BOUND):
                    res, exc, _lt = _validate(p2, True)
                    if res is True or exc is not None:
                        break
                ref.append(_read(p2))
            rc, txt = None, ""
            n_runs = 0
            for _ in range(C18_PASS_BOUND):
                rc, txt = _run_cli(["--replace"] + paths, root)
                acc.ev()
                n_runs += 1
                if rc == 0:
                    break
            probs = []
            if rc != 0:
                probs.append("exit status still %r after %d --replace runs" % (rc, n_runs))
            got = [_read(p_) for p_ in paths]
            if got != ref:
                probs.append("bytes differ from the in-process validate_file loop for %s"
                             % [os.path.relpath(p_, root) for p_, a, b in zip(paths, got, ref) if a != b])
            rc2, txt2 = _run_cli(["--replace"] + paths, root)
            acc.ev()
            if rc == 0 and (rc2 != 0 or [_read(p_) for p_ in paths] != got):
                probs.append("a further --replace run is not the identity (exit %d)" % rc2)
            if any(os.path.exists(p_ + ".new") for p_ in paths):
                probs.append(".new left behind")
            if probs:
                out.append(("c18:cli:mangled:" + re.sub(r"[^a-z]+", "-", probs[0].lower())[:40], contract,
                            "kconfcheck --replace on %d mangled files %r: %s; output: %s" % (len(paths), [s[2] for s in specs], "; ".join(probs), txt[-300:]),
                            script, sum(map(len, texts))))
            else:
                acc.nt("c18cli:mangled:%d:%d" % (len(paths), n_runs))
    finally:
        shutil.rmtree(root, ignore_errors=True)
    return out


# ---- scope / runner ---------------------------------------------------------------------------------------------------

C18_SAFE_CLI_MANGLED = [(["bool"], "top", "w2"), (["int_range"], "menu", "tab_level"), (["choice_named"], "top", "trail_space"),
                        (["cont3"], "top", "w2+trail"), (["menu_nested"], "top", "w8+inner_tab"), (["orsource_a_after_config"], "menu", "w3")]


def c18_work(tier, seed):
    rng = random.Random(1000003 * seed + 18)
    tags = list(C18_FRAG_TAGS)
    work = []
    for w in C18_WRAPPERS:
        for t in tags:
            work.append(("compliant", (t,), w))
    pairs = [(a, b) for a in tags for b in tags]
    for a, b in pairs:
        work.append(("compliant", (a, b), "top"))
    if tier == "thorough":
        for a, b in pairs:
            for w in ("menu", "menu_if", "deep", "nomain"):
                work.append(("compliant", (a, b), w))
        triples = [tuple(rng.sample(tags, 3)) for _ in range(3000)]
        for tr in triples:
            work.append(("compliant", tr, rng.choice(C18_WRAPPERS)))
    mnames = sorted(C18_MANGLERS)
    for w in (("top", "deep") if tier == "quick" else ("top", "menu", "deep")):
        for t in tags:
            for m in mnames:
                work.append(("mangled", (t,), w, m, 1))
    n_pairs = 20 if tier == "quick" else 700
    for a, b in rng.sample(pairs, n_pairs):
        w = rng.choice(("top", "menu", "menu_if", "deep"))
        for m in mnames:
            work.append(("mangled", (a, b), w, m, rng.randrange(1 << 30)))
    if tier == "thorough":
        for w in ("menu_if", "if_top"):
            for t in tags:
                for m in mnames:
                    work.append(("mangled", (t,), w, m, 2))
        for t in tags:
            for s in range(8):
                work.append(("mangled", (t,), "menu", "jitter", 100 + s))
    work.append(("rename",))
    work.append(("cli", ("compliant", [((t,), "top") for t in tags])))
    work.append(("cli", ("compliant", [((t,), "deep") for t in tags[::3]] + [((t,), "nomain") for t in tags[1::3]])))
    work.append(("cli", ("mangled", C18_SAFE_CLI_MANGLED[:3])))
    work.append(("cli", ("mangled", C18_SAFE_CLI_MANGLED[3:])))
    return work


def _c18_worker(chunk):
    _quiet()
    acc = _Acc()
    for w in chunk:
        t_w = time.time()
        try:
            if w[0] == "compliant":
                vs = c18_case_compliant(acc, list(w[1]), w[2])
            elif w[0] == "mangled":
                vs = c18_case_mangled(acc, list(w[1]), w[2], w[3], w[4])
            elif w[0] == "rename":
                vs = c18_rename_cases(acc)
            else:
                vs = c18_cli_case(acc, w[1])
        except Exception:  # noqa: BLE001 - a bug of the driver, not of the library
            acc.stat("checker_error")
            acc.stats.setdefault("checker_error_text", traceback.format_exc()[-1500:])
            continue
        acc.stat("ms:" + w[0], int(1000 * (time.time() - t_w)))
        for cc, contract, detail, script, size in vs:
            acc.violation(cc, contract, detail, script, size)
        if w[0] in ("mangled",) and len(acc.samples) < 2:
            acc.sample({"kind": w[0], "fragments": list(w[1]), "wrapper": w[2], "mangling": w[3]})
        elif w[0] == "compliant" and len(acc.samples) < 1:
            acc.sample({"kind": w[0], "fragments": list(w[1]), "wrapper": w[2]})
    return acc.dump()


def run_c18(tier, seed, jobs):
    work = c18_work(tier, seed)
    # the slow CLI items first so that they overlap with the rest
    work.sort(key=lambda w: 0 if w[0] == "cli" else 1)
    heavy = [w for w in work if w[0] in ("cli", "rename")]
    light = [w for w in work if w[0] not in ("cli", "rename")]
    chunks = [[h] for h in heavy] + _chunks(light, max(1, jobs) * 4)
    acc = _Acc()
    for d in _pool_map(_c18_worker, chunks, jobs):
        acc.merge(d)
    n_c = sum(1 for w in work if w[0] == "compliant")
    n_m = sum(1 for w in work if w[0] == "mangled")
    bound = ("Kconfig files rendered in kconfcheck's documented style from %d hand-written fragments (all entry kinds: config/menuconfig of every "
             "type, promptless, prompt keyword, menus nested 3 deep with depends on/visible if, named/unnamed choices with help, if blocks, comment "
             "entries, select/imply/set, '#' comments at level / column 0 / inline, help with blank lines / deeper lines / lines starting with "
             "keywords, backslash continuations over 2, 3 and 4 physical lines, source/rsource/osource/orsource (existing and absent files, env "
             "var path) after a config, after help, first in block, inside and after a menu, after a comment) x wrappers %s; compliant clause: "
             "%d files (all single fragments x 6 wrappers, all ordered pairs x {top}%s); mangled clause: %d files = fragments/pairs x wrappers "
             "x %d whitespace manglings (level width 1,2,3,5,6,8; tab per level; tab per 8 columns; mixed; shift by 2; trailing blanks / tabs; tab "
             "between tokens; random per-line indentation; compositions), only those that both parsers still read like the canonical file; "
             "%d sdkconfig.rename files x 3 manglings; 4 CLI invocations with up to %d files; pass bound %d"
             % (len(C18_FRAG_TAGS), list(C18_WRAPPERS), n_c, ", all ordered pairs x the other wrappers and 3000 random triples" if tier == "thorough" else "",
                n_m, len(C18_MANGLERS), len(c18_rename_files()), len(C18_FRAG_TAGS), C18_PASS_BOUND))
    rule = ("exhaustive over single fragments and ordered pairs; the seed selects which %d pairs (and their wrapper / jitter seeds) get all "
            "manglings%s" % (20 if tier == "quick" else 700, " and the random triples" if tier == "thorough" else ""))
    contracts = [
        "kconfcheck.core.validate_file(path, replace=False|True) on a file in the documented style: returns True, file bytes unchanged, no <file>.new, directory listing unchanged",
        "kconfcheck.core.validate_file(path, replace=True) repeated on a file whose only defects are indentation width / tabs / trailing blanks: "
        "never aborts, leaves no .new, returns True within %d passes; one more pass (and a plain check) returns True and is the identity; "
        "Kconfig(parser_version=1) and Kconfig(parser_version=2) of the result have the same node tree (all nodes, all properties, line numbers), "
        "the same gen.snapshot() and the same help texts as those of the file before fixing" % C18_PASS_BOUND,
        "the same two contracts for sdkconfig.rename files (meaning = old->new map and inversions loaded by Kconfig.load_rename_files under both parsers)",
        "python -m kconfcheck [--replace] f1..fn: exit status 0 / `OK` per compliant file / bytes unchanged / no .new; on mangled files exit 0 within "
        "%d runs, then identity, bytes equal to the in-process validate_file loop" % C18_PASS_BOUND,
    ]
    return acc, bound, rule, contracts


# ======================================================================================================================
# entry points
# ======================================================================================================================

def run(prop, tier="quick", seed=0, jobs=None):
    t0 = time.time()
    jobs = jobs or min(16, os.cpu_count() or 1)
    base = {"name": NAME, "property": prop, "kind": "bounded"}
    try:
        _quiet()
        G.scrub_env()
        runner = {"C18": run_c18, "C19": globals().get("run_c19"), "C20": globals().get("run_c20")}.get(prop)
        if runner is None:
            raise ValueError("unknown property %r (served: %s)" % (prop, PROPERTIES))
        acc, bound, rule, contracts = runner(tier, seed, jobs)
        if acc.stats.get("checker_error"):
            base.update(status="checker_error", reason="driver exception in %d work items: %s"
                        % (acc.stats["checker_error"], acc.stats.get("checker_error_text", "")))
        else:
            base["status"] = "ok"
        stats = {k: v for k, v in sorted(acc.stats.items()) if k != "checker_error_text"}
        base.update(bound=bound, rule=rule, contracts=contracts, evaluations=acc.evaluations,
                    distinct_nontrivial=len(acc.nontrivial), samples=acc.samples[:5], violations=acc.violations(), stats=stats,
                    seconds=round(time.time() - t0, 2))
    except Exception as e:  # noqa: BLE001
        base.update(status="checker_error", reason="%s: %s\n%s" % (type(e).__name__, e, traceback.format_exc()[-2000:]),
                    seconds=round(time.time() - t0, 2))
    return base


def main(argv=None):
    argv = list(sys.argv[1:] if argv is None else argv)
    if not argv:
        print("usage: python -m rtc.drv_tools <C18|C19|C20> [quick|thorough] [seed] [jobs]")
        return 2
    prop = argv[0]
    tier = argv[1] if len(argv) > 1 else "quick"
    seed = int(argv[2]) if len(argv) > 2 else 0
    jobs = int(argv[3]) if len(argv) > 3 else None
    res = run(prop, tier, seed, jobs)
    sys.stdout.write(json.dumps(res, indent=1, sort_keys=True) + "\n")
    return 0 if res.get("status") == "ok" else 1


if __name__ == "__main__":
    sys.exit(main())
