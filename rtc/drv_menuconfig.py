"""
rtc.drv_menuconfig -- bounded stand-in for C16 (menuconfig never drops unsaved edits and knows when it
is clean) and C17 (the menuconfig model stays consistent under any sequence of user actions).

What is executed
----------------
The real ``esp_menuconfig.model.MenuConfigState`` (UI independent model of the Textual front end), the
real ``esp_menuconfig.formatting.check_valid`` / ``node_str`` and the real ``Kconfig.load_config`` /
``write_config`` of the tree named by ``PYVC_REPO`` (default /repo).  No Textual application is
started: ``_UI`` below replays, call by call, what ``esp_menuconfig/app.py`` (``MenuConfigApp``) and
``esp_menuconfig/widgets.py`` (``MenuOptionList``) do for every key:

    cursor movement          MenuOptionList.highlighted  -> app._sync_sel_node_i() before each handler
    Enter / Right / l        _on_node_selected: enter_menu(node) or _handle_change(node)
                             (change_node; NEEDS_INPUT -> InputScreen with validator state.check_valid,
                             then _apply_input: strip, "0x" prefix for hex, state.set_val;
                             NEEDS_WARNING -> dialog, force_change_node)
    Space                    _on_node_toggled
    Left / h / Backspace     _on_leave_requested;  Escape: _on_escape_pressed
    y / n                    _on_bool_value_set -> set_sel_node_bool_val
    a                        action_toggle_all -> toggle_show_all
    r                        action_restore_default -> restore_default / (menu, confirmed) restore_defaults_recursive
    /                        JumpToScreen: search_nodes(query), jump_to(match)
    o                        action_load -> _handle_load_result: try_load, conf_changed = needs_save(),
                             show_all forced when the highlighted row vanished, _update_menu
    s                        action_save: write_config(conf_filename, header=idf_sdkconfig_header(),
                             write_deprecated=False), conf_changed = False, reload_sdkconfig_file
    q                        action_quit_dialog: needs_save()
    after every handler      _refresh_menu: node_str() of every displayed row, menu_path()
    session start            esp_menuconfig.menuconfig(): state.load_config(), show_all forced when the
                             top menu shows nothing

(the model has no select_next/select_prev: the cursor lives in the widget and reaches the model only
through _sync_sel_node_i, which is replayed).  Every model call is issued as one line of Python source
that is both executed here and copied verbatim into the reproduction script of a violation, so the
script is the executed history, not a paraphrase of it.  Histories found at random are reduced
(greedy removal of UI actions, replayed through the same front-end model) before they are reported.

C17 quantifies over "all finite sequences of the actions the Textual front end can issue", so every
session consists of keys of the real UI only (class prefix ``ui:``).  There is deliberately NO phase
that calls public methods of MenuConfigState with arguments the front end never passes (a node that
is not the highlighted row, force_change_node without the preceding NEEDS_WARNING, leave_menu at the
top, ...): such histories are outside the property's quantifier, and a crash that needs one of them
says nothing about C17.  For the same reason C16 (which does not speak about exceptions at all) only
charges an exception that is raised by one of its own flows (load / save / needs_save); a crash of a
navigation or edit method ends a C16 session silently and is C17's business.

Oracles (all from the property statements, none re-implements the library): bytes of the file on
disk vs. bytes ``Kconfig.write_config`` writes now; a FRESH session on the same file; the complete
value snapshot before/after an action; ``sc.assignable`` / ``rev_dep`` / ``rev_values`` read BEFORE the action.
"""

import os
import sys

_REPO = os.environ.get("PYVC_REPO", "/repo")
if not sys.path or sys.path[0] != _REPO:
    sys.path.insert(0, _REPO)

# the project modules must be imported BEFORE rtc.gen (which puts /repo in front of sys.path)
import esp_kconfiglib.core as K  # noqa: E402
import esp_menuconfig.formatting as FMT  # noqa: E402,F401
from esp_menuconfig.idf_headers import idf_sdkconfig_header  # noqa: E402,F401
from esp_menuconfig.model import ChangeResult  # noqa: E402
from esp_menuconfig.model import MenuConfigState  # noqa: E402,F401

import json  # noqa: E402
import multiprocessing  # noqa: E402
import random  # noqa: E402
import re  # noqa: E402
import shutil  # noqa: E402
import tempfile  # noqa: E402
import time  # noqa: E402
import traceback  # noqa: E402
import zlib  # noqa: E402

from rtc import gen  # noqa: E402

NAME = "drv_menuconfig"
PROPERTIES = ["C16", "C17"]

# --------------------------------------------------------------------------------------------------
# Source shared verbatim by the driver and by every reproduction script
# --------------------------------------------------------------------------------------------------

SCRIPT_HEAD = r'''#!/usr/bin/env python3
# Reproduction generated by /verif/rtc/drv_menuconfig.py -- replays one history on the real
# esp_menuconfig.model.MenuConfigState of the tree named by $PYVC_REPO (default /repo).
# exit status 1: the violation shows, 0: it does not.
import os, sys, shutil, tempfile
REPO = os.environ.get("PYVC_REPO", "/repo")
sys.path.insert(0, REPO)
for _v in ("IDF_TARGET", "IDF_INIT_VERSION", "IDF_VERSION", "KCONFIG_CONFIG_HEADER", "KCONFIG_PARSER_VERSION",
           "srctree", "CONFIG_", "KCONFIG_DEFAULTS_POLICY", "KCONFIG_CONFIG", "KCONFIG_STRICT",
           "KCONFIG_WARN_UNDEF", "KCONFIG_WARN_UNDEF_ASSIGN", "KCONFIG_REPORT_VERBOSITY"):
    os.environ.pop(_v, None)
try:
    from esp_pylib.logger import Verbosity, log
    log.set_verbosity(Verbosity.SILENT)
except Exception:
    pass
import esp_kconfiglib.core as K
import esp_menuconfig.formatting as FMT
from esp_menuconfig.idf_headers import idf_sdkconfig_header
from esp_menuconfig.model import ChangeResult, MenuConfigState
'''

HELPERS = r'''
def start(d, text, rename, pv, main, hdr):
    """esp_menuconfig.__main__ + esp_menuconfig.menuconfig() up to the start of the Textual app."""
    kpath = os.path.join(d, "Kconfig")
    with open(kpath, "w", encoding="utf-8", newline="\n") as f:
        f.write(text)
    cfg = os.path.join(d, "sdkconfig")
    if main is not None:
        with open(cfg, "wb") as f:
            f.write(main)
    elif os.path.exists(cfg):
        os.remove(cfg)
    os.environ["KCONFIG_CONFIG"] = cfg
    if hdr:
        os.environ["IDF_TARGET"] = "esp32"
    else:
        os.environ.pop("IDF_TARGET", None)
    inst = getattr(K.KconfigReport, "_instance", None)
    if inst is not None and getattr(inst, "_initialized", False):
        inst.reset()
    k = K.Kconfig(kpath, parser_version=pv)
    if rename:
        rpath = os.path.join(d, "sdkconfig.rename")
        with open(rpath, "w", encoding="utf-8", newline="\n") as f:
            f.write(rename)
        k.load_rename_files([rpath])
    st = MenuConfigState(
        kconf=k,
        conf_filename=cfg,
        minconf_filename=os.path.join(d, "sdkconfig.defaults"),
        conf_changed=False,
        write_deprecated=bool(k.deprecated_options is not None and k.deprecated_options.has_entries),
    )
    st.conf_changed, _msg = st.load_config()
    if not st.shown:
        st.show_all = True
        st.shown = st.shown_nodes(st.cur_menu)
    k.warn = False
    return k, st, cfg


def write_files(d, files):
    """files: list of (name, bytes | None (path does not exist) | "DIR")."""
    out = []
    for name, data in files:
        p = os.path.join(d, name)
        if data == "DIR":
            os.makedirs(p, exist_ok=True)
        elif data is not None:
            with open(p, "wb") as f:
                f.write(data)
        out.append(p)
    return out


def refresh(st):
    """MenuConfigApp._refresh_menu(): label of every displayed row and the path bar."""
    for node in st.shown:
        FMT.node_str(node, show_name=st.show_name, has_visible_child_fn=st.has_visible_child, kconf=st.kconf)
        st._visible(node)
    st.menu_path()


def save(st):
    """MenuConfigApp.action_save() (= _do_save + baseline reload)."""
    msg = st.kconf.write_config(st.conf_filename, header=idf_sdkconfig_header(), write_deprecated=False)
    st.saved = True
    if msg:
        st.conf_changed = False
        st.reload_sdkconfig_file(st.conf_filename)
    return msg


def handle_load(st, filename):
    """MenuConfigApp._handle_load_result() without the widget refresh; returns success."""
    filename = os.path.expanduser(filename)
    success, error = st.try_load(filename)
    if success:
        st.conf_changed = st.needs_save()
        if st.selected_node not in st.shown_nodes(st.cur_menu):
            st.show_all = True
        st._update_menu()
    return success


def inv(st):
    """State invariant of C17; returns the list of broken clauses."""
    bad = []
    n = len(st.shown)
    if n == 0:
        bad.append("empty-list: the displayed list is empty, no row can be highlighted (sel_node_i=%d)" % st.sel_node_i)
    elif not (0 <= st.sel_node_i < n):
        bad.append("index: sel_node_i=%d is outside 0..%d" % (st.sel_node_i, n - 1))
    try:
        st.selected_node
    except Exception as e:
        bad.append("selected-node-raises: selected_node raises %s" % type(e).__name__)
    if st.shown != st.shown_nodes(st.cur_menu):
        bad.append("display-list-stale: shown differs from shown_nodes(cur_menu) under show_all=%s" % st.show_all)
    if not (st.cur_menu is st.kconf.top_node or st.cur_menu.is_menuconfig):
        bad.append("cur-menu-not-a-menu: cur_menu is neither the top node nor a menu")
    return bad


def snap(k):
    """Complete observable configuration: every option's value, visibility, assignable values, output line."""
    out = {}
    for s in k.unique_defined_syms:
        out[s.name] = (s.str_value, s.visibility, tuple(s.assignable), s.config_string)
    for i, c in enumerate(k.unique_choices):
        sel = c.selection
        out["choice:%d" % i] = (sel.name if sel is not None else None, c.visibility)
    return out


def ustate(k):
    """Everything the user has set."""
    out = {}
    for s in k.unique_defined_syms:
        if s._user_value is not None:
            out[s.name] = s._user_value
    for i, c in enumerate(k.unique_choices):
        if c._user_selection is not None:
            out["choice:%d" % i] = c._user_selection.name
    return out


def disk(path):
    try:
        with open(path, "rb") as f:
            return f.read()
    except OSError:
        return None


def would_write(st, d):
    """Bytes that saving NOW would put on disk: the real write_config with the arguments of app._do_save."""
    p = os.path.join(d, "would_write.tmp")
    if os.path.exists(p):
        os.remove(p)
    st.kconf.write_config(p, header=idf_sdkconfig_header(), save_old=False, write_deprecated=False)
    return disk(p)


def same_value(sym, val):
    """Does the option now have the value 'val' (numerically for int/hex/float, textually for string)?"""
    sv = sym.str_value
    try:
        if sym.orig_type == K.INT:
            return int(sv, 10) == int(val, 10)
        if sym.orig_type == K.HEX:
            return int(sv, 16) == int(val, 16)
        if sym.orig_type == K.FLOAT:
            a, b = float(sv), float(val)
            return a == b or (a != a and b != b)
    except ValueError:
        return False
    return sv == val


def locked(sc):
    """
    Locked by an active 'set' (int/hex/float/string) or by an active 'select' (bool).  Like for 'default', the first
    'set' whose condition holds decides; it can only pin the option to a value the option's type can have: when the
    operand's current value is not such a value (e.g. 'set F=OTHER' while OTHER has no value) there is nothing the
    option could be locked to, the library ignores that 'set' with a note, and the option counts as not locked.
    The operand's VALUE is what the documented grammar ('set TARGET=(value | symbol)') assigns, not its name.

    Returns "" (not locked) or what locks the option: "select", "set" (operand is a literal, or the target is a
    string), "set-sym-numeric" (int/hex/float target and the operand of the deciding 'set' is a SYMBOL: its name is
    no literal of the target's type, its value is one).  The last kind is kept apart because the library is known to
    ignore exactly these (KNOWN_FINDINGS C01 precedence:<type>:set-sym): what follows from that gets its own class.
    """
    if not isinstance(sc, K.Symbol):
        return ""

    def literal(text):
        try:
            if sc.orig_type == K.INT:
                int(text, 10)
            elif sc.orig_type == K.HEX:
                int(text, 16)
            elif sc.orig_type == K.FLOAT:
                return bool(K.is_float(text))
        except ValueError:
            return False
        return True

    for v, cond, _s in sc.rev_values:
        if K.expr_value(cond):
            if not literal(v.str_value):
                return ""
            if sc.orig_type in (K.INT, K.HEX, K.FLOAT) and not literal(v.name):
                return "set-sym-numeric"
            return "set"
    return "select" if sc.orig_type == K.BOOL and not sc.choice and K.expr_value(sc.rev_dep) == 2 else ""


def locked_suffix(sc, how):
    """Class suffix for a changed locked option: names the known root cause when (and only when) it applies."""
    if how == "set-sym-numeric":
        return ":set-sym-operand-ignored-for-numeric-target:" + K.TYPE_TO_STR[sc.orig_type]
    return ""
'''

SCRIPT_MAIN = r'''
def main():
    d = tempfile.mkdtemp(prefix="drvmc_")
    try:
        return replay(d)
    finally:
        shutil.rmtree(d, ignore_errors=True)


if __name__ == "__main__":
    sys.exit(main())
'''

_HELPER_NS = {
    "os": os, "sys": sys, "K": K, "FMT": FMT, "idf_sdkconfig_header": idf_sdkconfig_header,
    "ChangeResult": ChangeResult, "MenuConfigState": MenuConfigState,
}
exec(compile(HELPERS, "<drv_menuconfig helpers>", "exec"), _HELPER_NS)

_start = _HELPER_NS["start"]
_snap = _HELPER_NS["snap"]
_ustate = _HELPER_NS["ustate"]
_inv = _HELPER_NS["inv"]
_disk = _HELPER_NS["disk"]
_would_write = _HELPER_NS["would_write"]
_same_value = _HELPER_NS["same_value"]
_locked = _HELPER_NS["locked"]
_locked_suffix = _HELPER_NS["locked_suffix"]

_CODE_CACHE = {}
_WORK_ROOT = [None]


def _mkd(tag):
    """Scratch directory: a tempfile directory below the per-run / per-worker tempfile root."""
    return tempfile.mkdtemp(prefix="drvmc%s_" % tag, dir=_WORK_ROOT[0])



def _compiled(code):
    c = _CODE_CACHE.get(code)
    if c is None:
        c = compile(code, "<trace>", "exec")
        if len(_CODE_CACHE) > 20000:
            _CODE_CACHE.clear()
        _CODE_CACHE[code] = c
    return c


# --------------------------------------------------------------------------------------------------
# Hand written trees: shapes the random grammar produces rarely or never
# --------------------------------------------------------------------------------------------------

HAND = {}

HAND["hidden_menu_depends"] = ('''mainmenu "T"

config FEATURE
    bool "Enable feature"
    default n

menu "Feature settings"
    depends on FEATURE

    config FEATURE_FAST
        bool "Fast mode"
        default y

    config FEATURE_LEVEL
        int "Level"
        default 3

endmenu

config OTHER
    bool "Something else"
    default y
''', "")

HAND["hidden_menu_visible_if_choice"] = ('''mainmenu "T"

config FEATURE
    bool "Enable feature"
    default n

menu "Feature settings"
    visible if FEATURE

    config FEATURE_FAST
        bool "Fast mode"
        default y

    choice FEATURE_KIND
        prompt "Kind"
        default KIND_A

        config KIND_A
            bool "Kind A"

        config KIND_B
            bool "Kind B"

    endchoice

    menu "Inner"

        config INNER_X
            int "inner x"
            default 1

    endmenu

endmenu

config OTHER
    bool "Something else"
    default y
''', "")

HAND["multi_range"] = ('''mainmenu "T"

config WIDE
    bool "Allow the wide range"
    default n

config LO
    int "lo"
    default 2

config HI
    int "hi"
    default 20

config LEVEL
    int "Level"
    range 0 100 if WIDE
    range 0 10
    default 5

config ADDR
    hex "Address"
    range 0x0 0xffff if WIDE
    range 0x10 0xff
    default 0x20

config GAIN
    float "Gain"
    range 0.0 100.0 if WIDE
    range 0.5 2.5
    default 1.0

config SYMB
    int "symbolic bounds"
    range LO 100 if WIDE
    range LO HI
    default 7

config FREEHEX
    hex "hex without range"
    default 0x1

config PLAIN
    int "Single unconditional range"
    range 0 10
    default 3
''', "")

HAND["rocket"] = ('''mainmenu "T"

config MOTORS
    bool "Motors enabled"
    default y

config THRUST
    int "Thrust"
    depends on MOTORS
    default 5

config GAIN
    float "Gain"
    range 0.5 2.5
    default 1.0

config RATIO
    float "Ratio"
    default 2

config FUEL
    string "Fuel"
    default "kerosene"

choice LUNCH
    prompt "Lunch"

    config LUNCH_SANDWICH
        bool "Sandwich"

    config LUNCH_PIZZA
        bool "Pizza"

    config LUNCH_SALAD
        bool "Salad"

endchoice

menu "Crew"

    config CREW
        int "Crew size"
        range 1 9
        default 3

    config CAPTAIN
        string "Captain"
        default "kirk" if MOTORS
        default "nobody"

endmenu
''', "")

HAND["menuconfig_locks"] = ('''mainmenu "T"

config LOCK
    bool "lock"
    default n
    select MC

config SRC
    bool "src"
    default n
    set TGT=7
    set default WEAK=9

menuconfig MC
    bool "mc"
    default y

config MC_CHILD
    bool "mc child"
    depends on MC
    default y

config MC_NUM
    int "mc num"
    depends on MC
    default 4

config TGT
    int "tgt"
    default 1

config WEAK
    int "weak"
    default 2

config SEL_TARGET
    bool "sel target"

config SELECTOR
    bool "selector"
    default y
    select SEL_TARGET

menuconfig NUMMENU
    int "nummenu"
    default 3

config NM_CHILD
    bool "nm child"
    depends on NUMMENU != 0
''', "")

HAND["choice_two_places"] = ('''mainmenu "T"

config G
    bool "g"
    default y

choice CH
    prompt "ch"
    default A2

    config A1
        bool "a1"

    config A2
        bool "a2"

endchoice

menu "other"

    choice CH

        config A3
            bool "a3"
            depends on G

    endchoice

endmenu
''', "")

# a named choice defined in two places whose definitions SHARE a member (B): B has one menu node per definition, with
# its own prompt / condition; the later definition starts with the shared member (jump-to on that definition lands on it)
HAND["choice_two_places_shared_member"] = ('''mainmenu "T"

menu "first"

    choice CH
        prompt "ch"
        default A

        config A
            bool "a"

        config B
            bool "b"

    endchoice

endmenu

config EXTRA
    bool "extra"
    default y

menu "second"

    choice CH
        prompt "ch (second place)"

        config B
            bool "b again" if EXTRA

        config C
            bool "c"

    endchoice

endmenu

choice CH

    config D
        bool "d" if !EXTRA

    config A
        bool "a (third place)"

endchoice
''', "")

HAND["implicit_submenus"] = ('''mainmenu "T"

config A
    bool "a"
    default y

config B
    bool "b"
    depends on A
    default y

config C
    int "c"
    depends on B
    default 1

config P
    bool
    default y

config Q
    bool "q"
    depends on P

menuconfig MM
    bool "mm"
    depends on A

config MM1
    string "mm1"
    depends on MM
    default "x"

config W
    bool "w"
    warning "dangerous"
    default n

config WN
    int "wn"
    warning "dangerous number"
    default 1
''', "")

HAND["nested_hidden"] = ('''mainmenu "T"

config X
    bool "x"
    default y

config Y
    bool "y"
    default n

menu "Outer"
    visible if X

    config O1
        bool "o1"
        default y

    menu "Inner hidden"
        depends on Y

        config I1
            bool "i1"

        comment "inner note"

    endmenu

    menu "Only comment"

        comment "nothing here"
            depends on Y

    endmenu

    if Y

        config COND
            string "cond"
            default "c"

    endif

endmenu

comment "top note"
    depends on !Y
''', "")

HAND["two_defs"] = ('''mainmenu "T"

config G
    bool "g"
    default y

config D
    int "first"
    range 0 50
    default 5

menu "dup D"
    depends on G

    config D
        int "second"
        default 42 if G

    config E
        hex "e"
        range 0x0 0x20
        default 0x10

endmenu
''', "")

HAND["rename"] = ('''mainmenu "T"

config NEW_B
    bool "new b"
    default y

config NEW_I
    int "new i"
    default 5

config PLAIN
    string "plain"
    default "p"
''', '''# deprecated names
CONFIG_OLD_B    CONFIG_NEW_B
CONFIG_OLDINV_B    !CONFIG_NEW_B
CONFIG_OLD_I    CONFIG_NEW_I
''')

HAND_ORDER = sorted(HAND)

# texts typed into the input dialog (besides the bounds of the option's own range lines +-1)
TYPED = {
    K.INT: ["0", "7", "-1", "+5", " 9 ", "1_0", "42", "100", "abc", "", "0x10", "5.0"],
    K.HEX: ["0x10", "ff", "0XFF", "-5", "-0x5", "1_0", "0x0", "zz", "", "12", "0x100"],
    K.FLOAT: ["2", "1.50", "1e0", "2.5", " 2 ", "-0.5", "1,5", "abc", "nan", "inf", "0.5", "1E1", ".5", "5."],
    K.STRING: ["", "hello", 'a "q" \\ # x', "y", " sp ", "üñï", "a#b", "n"],
}

TIERS = {
    #           random trees, options, sessions per small/random/hand tree, actions per session
    "quick": {"count": 240, "n_syms": 7, "s_small": 2, "s_random": 4, "s_hand": 36, "steps": 14},
    "thorough": {"count": 2600, "n_syms": 8, "s_small": 8, "s_random": 8, "s_hand": 400, "steps": 24},
}


class _LibraryError(Exception):
    def __init__(self, code, exc, where):
        Exception.__init__(self, "%s: %s" % (type(exc).__name__, exc))
        self.code = code
        self.exc = exc
        self.where = where


class _Found(Exception):
    """Internal: a violation ended the session."""


def _where(exc):
    """'outer>inner' function names of the project frames of a traceback; None if no project frame."""
    root = os.path.realpath(_REPO) + os.sep
    outer = inner = None
    for fr in traceback.extract_tb(exc.__traceback__):
        if os.path.realpath(fr.filename).startswith(root):
            if outer is None:
                outer = fr.name
            inner = fr.name
    if outer is None:
        return None
    return outer if outer == inner else "%s>%s" % (outer, inner)


def _lit(s):
    """Readable python literal for str/bytes/None."""
    if s is None:
        return "None"
    if isinstance(s, bytes):
        try:
            t = s.decode("ascii")
        except UnicodeDecodeError:
            return repr(s)
        if "\\" in t or "'''" in t or "\r" in t or not t.endswith("\n"):
            return repr(s)
        return "b'''" + t + "'''"
    if "\\" in s or "'''" in s or "\r" in s or not s.endswith("\n") or not s.isascii():
        return repr(s)
    return "'''" + s + "'''"


def _crc(*parts):
    return zlib.crc32(repr(parts).encode("utf-8")) & 0xFFFFFFFF


# --------------------------------------------------------------------------------------------------
# Cases
# --------------------------------------------------------------------------------------------------


class _Case:
    """Everything a session needs besides the actions (all plain data, so that it can be replayed)."""

    def __init__(self, origin, text, rename, pv, hdr, main, main_kind, files, file_kinds):
        self.origin = origin
        self.text = text
        self.rename = rename
        self.pv = pv
        self.hdr = hdr
        self.main = main  # bytes or None
        self.main_kind = main_kind  # absent | tool | tool-edited | hand:<what>
        self.files = files  # list of (name, bytes|None|"DIR")
        self.file_kinds = file_kinds
        self.memo = {}  # fresh-session observations, shared by the sessions of one tree: (pv, hdr, bytes) -> ...


_ASSIGN_RE = re.compile(r"^(?:CONFIG_([A-Za-z0-9_]+)=(.*)|# CONFIG_([A-Za-z0-9_]+) is not set)$")


def _assignments(data):
    """(name -> (value, marked default)) of an sdkconfig text, last assignment wins; classification only."""
    out = {}
    if data is None:
        return out
    marked = False
    for line in data.decode("utf-8", "replace").splitlines():
        s = line.strip()
        if s == "# default:":
            marked = True
            continue
        m = _ASSIGN_RE.match(s)
        if m:
            if m.group(1) is not None:
                out[m.group(1)] = (m.group(2), marked)
            else:
                out[m.group(3)] = ("n", marked)
            marked = False  # like the loader: the marker waits for the next assignment
    return out


def _prepare_files(text, rename, pv, hdr, rng):
    """
    Files of one (tree, parser version): the tool-written default configuration, tool-written
    alternates that differ from it by ONE edit (choice selection only / one bool / one typed value /
    all of them), a file lacking options, hand-edited variants, and unusable paths.
    Returns dict kind -> bytes|None|"DIR".
    """
    out = {}
    d = _mkd("f")
    try:
        k, st, cfg = _start(d, text, rename, pv, None, hdr)
        save = _HELPER_NS["save"]
        save(st)
        base = _disk(cfg)
        out["tool"] = base

        def variant(edit):
            k.load_config(cfg, replace=True)
            if not edit(k):
                return None
            p = os.path.join(d, "alt")
            k.write_config(p, header=idf_sdkconfig_header(), save_old=False, write_deprecated=False)
            data = _disk(p)
            return data if data != base else None

        def pick_choice(kk):
            done = False
            for ch in kk.unique_choices:
                if ch.visibility != 2:
                    continue
                others = [s for s in ch.syms if s is not ch.selection and s.visibility == 2]
                if others:
                    others[rng.randrange(len(others))].set_value(2)
                    done = True
            return done

        def flip_bool(kk):
            cands = [s for s in kk.unique_defined_syms if s.orig_type == K.BOOL and not s.choice and len(s.assignable) > 1]
            if not cands:
                return False
            s = cands[rng.randrange(len(cands))]
            s.set_value(2 - s.bool_value)
            return True

        def type_value(kk):
            # Only an edit the front end can make: a row whose prompt is visible and which is changeable, and a text
            # the input validator accepts (a "file written by the tool" is a file a menuconfig session saved; a value
            # forced in with Symbol.set_value() behind the validator's back, e.g. outside the active range, is not
            # something a session can have written).
            typed = {K.INT: "6", K.HEX: "0x11", K.FLOAT: "1.25", K.STRING: "other text"}

            def accepted(s):
                try:
                    return FMT.check_valid(s, typed[s.orig_type])[0]
                except ValueError:  # the validator itself raises (charged by C17): no session gets past this input
                    return False

            cands = [s for s in kk.unique_defined_syms if s.orig_type in typed
                     and any(st.changeable(n) for n in s.nodes) and accepted(s)]
            if not cands:
                return False
            s = cands[rng.randrange(len(cands))]
            return bool(s.set_value(typed[s.orig_type]))

        def everything(kk):
            a = pick_choice(kk)
            b = flip_bool(kk)
            c = type_value(kk)
            return a or b or c

        out["alt-choice"] = variant(pick_choice)
        out["alt-bool"] = variant(flip_bool)
        out["alt-typed"] = variant(type_value)
        out["alt-all"] = variant(everything)

        lines = (base or b"").decode("utf-8").split("\n")
        # file lacking options: every second assignment (with its marker) removed
        kept, n, skip_marker = [], 0, None
        for i, line in enumerate(lines):
            if _ASSIGN_RE.match(line.strip()):
                n += 1
                if n % 2 == 0:
                    if kept and kept[-1].strip() == "# default:":
                        kept.pop()
                    continue
            kept.append(line)
        out["lacking"] = "\n".join(kept).encode("utf-8")
        out["hand:unknown"] = (base or b"") + b"CONFIG_NO_SUCH_OPTION=y\n"
        dup = []
        for line in lines:
            dup.append(line)
            m = _ASSIGN_RE.match(line.strip())
            if m and m.group(1) is not None and m.group(2) in ("y",):
                dup.append("# CONFIG_%s is not set" % m.group(1))
                dup.append(line)
        out["hand:duplicates"] = "\n".join(dup).encode("utf-8")
        out["hand:no-markers"] = "\n".join(x for x in lines if x.strip() != "# default:").encode("utf-8")
        out["hand:comments"] = b"# edited by hand\n\n" + (base or b"").replace(b"\n", b"\n\n", 1)
        if rename:
            old = {}
            for line in rename.splitlines():
                parts = line.split()
                if len(parts) == 2 and parts[0].startswith("CONFIG_") and not parts[1].startswith("!"):
                    old.setdefault(parts[1][len("CONFIG_"):], parts[0][len("CONFIG_"):])
            dep = []
            for line in lines:
                m = _ASSIGN_RE.match(line.strip())
                name = (m.group(1) or m.group(3)) if m else None
                if name in old:
                    line = line.replace("CONFIG_" + name, "CONFIG_" + old[name])
                dep.append(line)
            out["hand:deprecated-names"] = "\n".join(dep).encode("utf-8")
        out["missing-path"] = None
        out["directory"] = "DIR"
        out["not-utf8"] = b"\xff\xfe\x00CONFIG_A=y\n"
    finally:
        shutil.rmtree(d, ignore_errors=True)
    return out


# --------------------------------------------------------------------------------------------------
# The front end, replayed on the model
# --------------------------------------------------------------------------------------------------

NAV_KINDS = ("move", "left", "esc", "a", "jump", "quit")


class _UI:
    def __init__(self, case, prop, d, phase):
        self.case = case
        self.prop = prop
        self.d = d
        self.phase = phase  # always "ui": only keys of the front end (see module docstring)
        self.ns = dict(_HELPER_NS)
        self.ns.update(d=d, TEXT=case.text, RENAME=case.rename, PV=case.pv, MAIN=case.main, HDR=case.hdr,
                       FILES=case.files)
        self.lines = []  # (action number, source line)
        self.action_no = -1
        self.evaluations = 0
        self.nontrivial = set()
        self.violation = None
        self.file_origin = "absent" if case.main is None else ("tool" if case.main_kind.startswith("tool") else "hand")
        self.saved_once = False
        self.last = {}
        self.passed = set()
        self.memo = {}
        self.x("k, st, cfg = start(d, TEXT, RENAME, PV, MAIN, HDR)")
        self.x("N = list(k.node_iter())")
        self.x("F = write_files(d, FILES)")
        self.k = self.ns["k"]
        self.st = self.ns["st"]
        self.cfg = self.ns["cfg"]
        self.N = self.ns["N"]
        self.nid = {id(n): i for i, n in enumerate(self.N)}
        self.empty = not self.st.shown
        self.rows = []
        self.hl = None
        self.searchable = None
        if not self.empty:
            self.refresh()

    # ---- execution of one replayable line ------------------------------------------------------

    def x(self, code):
        self.lines.append((self.action_no, code))
        try:
            exec(_compiled(code), self.ns)
        except Exception as e:  # noqa: BLE001
            where = _where(e)
            if where is None:
                raise  # not a library frame anywhere: a bug of this driver
            raise _LibraryError(code, e, where)

    def n(self, node):
        return "N[%d]" % self.nid[id(node)]

    def label(self, node):
        it = node.item
        if isinstance(it, K.Symbol):
            return it.name
        if isinstance(it, K.Choice):
            return "choice %s" % (it.name or "<unnamed>")
        return "%s %r" % ("menu" if it == K.MENU else "comment", node.prompt[0] if node.prompt else "")

    # ---- widget ----------------------------------------------------------------------------------

    def refresh(self):
        self.x("refresh(st)")
        st = self.st
        root = st.cur_menu is st.kconf.top_node
        self.rows = ([] if root else [None]) + list(st.shown)
        idx = st.sel_node_i + (0 if root else 1)
        self.hl = idx if 0 <= idx < len(self.rows) else None

    def cur_node(self):
        if self.hl is not None and self.hl < len(self.rows):
            return self.rows[self.hl]
        return None

    def sync(self):
        node = self.cur_node()
        if node is not None and node in self.st.shown:
            # the guard is app._sync_sel_node_i's own; it keeps the replay of this history on a CHANGED tree (where the
            # row may not exist) from raising in the script itself
            self.x("st.sel_node_i = st.shown.index(%s) if %s in st.shown else st.sel_node_i  # _sync_sel_node_i: cursor is on %s"
                   % (self.n(node), self.n(node), self.label(node)))

    # ---- handlers ----------------------------------------------------------------------------------

    def input_dialog(self, node, text):
        sym = node.item
        if not isinstance(sym, K.Symbol):
            return
        if text is None:
            return  # Escape in the dialog
        self.x("ok, err = st.check_valid(%s.item, %r)  # InputScreen validator" % (self.n(node), text))
        ok = self.ns["ok"]
        self.last["typed"] = (node, text, ok, None)
        if not ok:
            return  # InvalidValueScreen, dialog stays open, user gives up
        val = text
        if sym.orig_type == K.HEX:
            val = val.strip()
            if not val.startswith(("0x", "0X")):
                val = "0x" + val
        elif sym.orig_type != K.STRING:
            val = val.strip()
        self.last["typed"] = (node, text, ok, val)
        self.x("st.set_val(%s.item, %r)  # app._apply_input" % (self.n(node), val))
        self.refresh()

    def warning_dialog(self, node, text, warn):
        sym = node.item
        if not isinstance(sym, K.Symbol) or not sym.warning:
            return
        if not warn:
            return
        self.x("r = st.force_change_node(%s)  # warning dialog answered y" % self.n(node))
        r = self.ns["r"]
        self.last["result"] = r
        if r == ChangeResult.NEEDS_INPUT:
            self.input_dialog(node, text)
        else:
            self.refresh()

    def handle_change(self, node, text, warn):
        self.x("r = st.change_node(%s)" % self.n(node))
        r = self.ns["r"]
        self.last["result"] = r
        if r == ChangeResult.NEEDS_INPUT:
            self.input_dialog(node, text)
        elif r == ChangeResult.NEEDS_WARNING:
            self.warning_dialog(node, text, warn)
        elif r != ChangeResult.NO_CHANGE:
            self.refresh()

    def key_enter(self, text, warn):
        if self.hl is None or self.hl >= len(self.rows):
            return
        node = self.rows[self.hl]
        if node is None:
            return self.key_left()
        self.sync()
        self.last["node"] = node
        self.x("r = st.enter_menu(%s)  # Enter on %s" % (self.n(node), self.label(node)))
        if not self.ns["r"]:
            self.handle_change(node, text, warn)
        else:
            self.last["entered"] = True
            self.refresh()

    def key_space(self, text, warn):
        node = self.cur_node()
        if node is None:
            return
        self.sync()
        self.last["node"] = node
        self.x("r = st.change_node(%s)  # Space on %s" % (self.n(node), self.label(node)))
        r = self.ns["r"]
        self.last["result"] = r
        if r == ChangeResult.NO_CHANGE:
            self.x("r = st.enter_menu(%s)" % self.n(node))
            if self.ns["r"]:
                self.last["entered"] = True
                self.refresh()
        elif r == ChangeResult.NEEDS_INPUT:
            self.input_dialog(node, text)
        elif r == ChangeResult.NEEDS_WARNING:
            self.warning_dialog(node, text, warn)
        else:
            self.refresh()

    def key_left(self):
        self.sync()
        if self.st.cur_menu is self.st.kconf.top_node:
            return
        self.last["left_from"] = self.st.cur_menu
        self.last["path_len"] = len(self.st.menu_path())
        self.x("st.leave_menu()")
        self.refresh()

    def key_esc(self):
        self.sync()
        if self.st.cur_menu is self.st.kconf.top_node:
            self.x("q = st.needs_save()  # Escape at the top: quit dialog")
            return
        self.last["left_from"] = self.st.cur_menu
        self.last["path_len"] = len(self.st.menu_path())
        self.x("st.leave_menu()")
        self.refresh()

    def key_yn(self, v):
        self.sync()
        if self.st.shown and 0 <= self.st.sel_node_i < len(self.st.shown):
            self.last["node"] = self.st.shown[self.st.sel_node_i]
        self.x("st.set_sel_node_bool_val(%d)  # key %s" % (v, "y" if v else "n"))
        self.refresh()

    def key_a(self):
        self.sync()
        self.x("st.toggle_show_all()  # key a")
        self.refresh()

    def key_r(self, confirm):
        self.sync()
        node = self.cur_node()
        if node is None:
            return
        self.last["node"] = node
        if node.item == K.MENU:
            if not confirm:
                return
            self.last["menu_reset"] = True
            self.x("st.restore_defaults_recursive(%s)  # key r on %s, confirmed" % (self.n(node), self.label(node)))
            self.refresh()
        else:
            self.x("st.restore_default(%s)  # key r on %s" % (self.n(node), self.label(node)))
            self.refresh()

    def key_jump(self, query, idx):
        self.x("m, err = st.search_nodes(%r)  # key /" % query)
        m = self.ns["m"]
        if not m or idx >= len(m):
            return
        node = m[idx]
        self.last["node"] = node
        self.x("st.jump_to(%s)  # match %d: %s" % (self.n(node), idx, self.label(node)))
        self.refresh()

    def key_load(self, fidx, confirm):
        if self.st.conf_changed and not confirm:
            return
        if fidx == -1:
            target = "cfg"
        else:
            target = "F[%d]" % fidx
        self.x("ok = handle_load(st, %s)  # key o, file kind: %s" % (target, "main" if fidx == -1 else self.case.file_kinds[fidx]))
        self.last["loaded"] = self.ns["ok"]
        if self.ns["ok"]:
            self.refresh()

    def key_save(self):
        self.x("msg = save(st)  # key s")
        self.last["saved"] = bool(self.ns["msg"])

    def key_quit(self):
        self.x("q = st.needs_save()  # key q")

    # ---- one action --------------------------------------------------------------------------------

    def perform(self, action):
        kind = action[0]
        self.last = {"kind": kind}
        if kind == "move":
            if self.rows and action[1] < len(self.rows):
                self.hl = action[1]
        elif kind == "enter":
            self.key_enter(action[1], action[2])
        elif kind == "space":
            self.key_space(action[1], action[2])
        elif kind == "left":
            self.key_left()
        elif kind == "esc":
            self.key_esc()
        elif kind == "y":
            self.key_yn(2)
        elif kind == "n":
            self.key_yn(0)
        elif kind == "a":
            self.key_a()
        elif kind == "r":
            self.key_r(action[1])
        elif kind == "jump":
            self.key_jump(action[1], action[2])
        elif kind == "load":
            self.key_load(action[1], action[2])
        elif kind == "save":
            self.key_save()
        elif kind == "quit":
            self.key_quit()
        else:
            raise AssertionError(kind)


# --------------------------------------------------------------------------------------------------
# Random policy
# --------------------------------------------------------------------------------------------------

W16 = (("goto", 18), ("move", 8), ("enter", 22), ("space", 5), ("y", 3), ("n", 4), ("r", 8), ("left", 3),
       ("a", 2), ("load", 11), ("save", 13), ("quit", 3))
W17 = (("goto", 14), ("move", 14), ("enter", 20), ("space", 6), ("y", 3), ("n", 4), ("r", 6), ("left", 7),
       ("esc", 3), ("a", 10), ("load", 7), ("save", 3), ("badjump", 1), ("quit", 2))


def _pick(rng, weights):
    total = sum(w for _k, w in weights)
    r = rng.randrange(total)
    for k, w in weights:
        if r < w:
            return k
        r -= w
    raise AssertionError


def _typed_candidates(sym):
    out = list(TYPED.get(sym.orig_type, [""]))
    if sym.orig_type in (K.INT, K.HEX, K.FLOAT):
        for low, high, _cond in sym.ranges:
            for b in (low.str_value, high.str_value):
                try:
                    if sym.orig_type == K.INT:
                        v = int(b, 10)
                        out += [str(v - 1), str(v), str(v + 1)]
                    elif sym.orig_type == K.HEX:
                        v = int(b, 16)
                        out += ["0x%x" % (v + 1), "%x" % v, "0x%x" % v] + (["0x%x" % (v - 1)] if v > 0 else ["-1"])
                    else:
                        v = float(b)
                        out += [repr(v - 0.25), repr(v), repr(v + 0.25), "%d" % int(v)]
                except ValueError:
                    pass
    return out


def _random_action(ui, rng, weights):
    kind = _pick(rng, weights)
    st = ui.st
    if kind == "goto":
        if ui.searchable is None:
            m, _err = st.search_nodes(".")
            ui.searchable = len(m)
        if not ui.searchable:
            return ("move", 0)
        return ("jump", ".", rng.randrange(ui.searchable))
    if kind == "badjump":
        return ("jump", rng.choice(["(", " ", "zzzz_nothing", "[a-"]), 0)
    if kind == "move":
        return ("move", rng.randrange(len(ui.rows))) if ui.rows else ("move", 0)
    if kind in ("enter", "space"):
        node = ui.cur_node()
        text = None
        if node is not None and isinstance(node.item, K.Symbol) and node.item.orig_type in TYPED:
            cands = _typed_candidates(node.item)
            text = cands[rng.randrange(len(cands))] if rng.random() < 0.93 else None
        return (kind, text, rng.random() < 0.8)
    if kind == "r":
        return ("r", rng.random() < 0.85)
    if kind == "load":
        nf = len(ui.case.files)
        fidx = -1 if rng.random() < 0.2 else rng.randrange(nf)
        return ("load", fidx, rng.random() < 0.9)
    return (kind,)


# --------------------------------------------------------------------------------------------------
# Contracts
# --------------------------------------------------------------------------------------------------


class _Violation:
    def __init__(self, case_class, contract, detail, final, need_pre=False):
        self.case_class = case_class
        self.contract = contract
        self.detail = detail
        self.final = final  # python expression: truthy iff the violation shows (evaluated after the history)
        self.need_pre = need_pre
        # fatal: the real application would have died / has no row to act on; other violations are recorded
        # and the session goes on (so that a frequent benign class does not hide what comes after it)
        self.fatal = final.startswith("EXC:") or ":highlighted-row-missing:" in case_class


CONTRACTS = {
    "C16": [
        "MenuConfigState.needs_save(): whenever it returns False (after session start, after every key of the history, "
        "incl. loads of other files), the bytes of conf_filename on disk equal the bytes Kconfig.write_config(header="
        "idf_sdkconfig_header(), write_deprecated=False) writes now (absent file = no bytes)",
        "save flow (app.action_save: Kconfig.write_config + MenuConfigState.reload_sdkconfig_file): immediately afterwards "
        "needs_save() is False, and a FRESH session started on the saved file reports False too",
        "save flow: the complete configuration (every option's value, visibility, assignable set, output line, every "
        "choice selection) is the same after write+reload as before (saving drops no edit)",
        "MenuConfigState.load_config() at session start on a file the tool itself wrote (save flow of a previous session): "
        "needs_save() is False",
        "MenuConfigState.try_load(conf_filename) (key o, default file name) in a session that reported clean: still clean",
        "MenuConfigState.try_load(unusable path): returns (False, message) and changes nothing",
    ],
    "C17": [
        "every public method of MenuConfigState reached through a key of the front end (enter_menu, leave_menu, jump_to, "
        "change_node, force_change_node, set_val, set_sel_node_bool_val, restore_default, restore_defaults_recursive, "
        "toggle_show_all, check_valid, search_nodes, try_load, reload_sdkconfig_file, needs_save, menu_path, "
        "has_visible_child, selected_node) and formatting.node_str of every displayed row: no exception",
        "state invariant after every key: shown is non-empty, 0 <= sel_node_i < len(shown), selected_node does not "
        "raise, shown == shown_nodes(cur_menu) under the current show_all, cur_menu is the top node or a menu node",
        "leave_menu(): the menu path gets shorter and the highlighted row exists",
        "navigation keys (cursor, Enter into a menu, Left, Escape, a, /, q) change no value and no user value",
        "change_node/_perform_toggle/set_sel_node_bool_val on a bool row: the new value was in sc.assignable before the "
        "key; a value outside it changes nothing; only the row's own option (or its choice) gets a user value",
        "an option locked by an active `set` or an active `select` (read from rev_values / rev_dep before the key): "
        "Enter, Space, y, n and typed input on its row change nothing at all; r does not change its value",
        "formatting.check_valid accepts text  =>  after app._apply_input + set_val the option HAS that value "
        "(numerically for int/hex/float, textually for string); rejected or cancelled input changes nothing",
        "restore_default(row) / restore_defaults_recursive(menu row): afterwards the option(s) have no user value and no "
        "option outside the row's option/choice/menu lost or gained one",
    ],
}


def _classify_clean_differs(ui, D, W):
    """needs_save() is False but disk != would-write: which kind of difference, and is an edit lost?"""
    a, b = _assignments(D), _assignments(W)
    if a == b:
        kind = "layout-only"
    elif {k: v[0] for k, v in a.items()} == {k: v[0] for k, v in b.items()}:
        kind = "marker-only"
    else:
        kind = "values"
    # would a fresh session on the file on disk end up in the same configuration?
    try:
        lost = _fresh_needs_save(ui, D)[2] != _snap(ui.k)
    except Exception:  # noqa: BLE001
        lost = None
    if kind == "values" and lost is False:
        kind = "spelling"
    return kind, lost


_NUMERIC = (K.INT, K.HEX, K.FLOAT)


def _sym_info(k):
    """name -> (type name, visibility, 'the active range is empty: lower limit > upper limit') of every option."""
    out = {}
    for s in k.unique_defined_syms:
        empty = False
        if s.orig_type in _NUMERIC:
            for lo, hi, cond in s.ranges:
                if K.expr_value(cond):
                    # bounds as Symbol.str_value reads them: a bound without a numeric value (an option that has
                    # none right now) counts as 0
                    def num(x, typ=s.orig_type):
                        try:
                            return float(x.str_value) if typ == K.FLOAT else int(x.str_value, 10 if typ == K.INT else 16)
                        except ValueError:
                            return 0

                    empty = num(lo) > num(hi)
                    break
        out[s.name] = (K.TYPE_TO_STR[s.orig_type], s.visibility, empty)
    # numeric targets of a `set` / `set default` whose operand is a symbol: str_value takes the operand's name for a
    # malformed literal and the result depends on the evaluation history (KNOWN_FINDINGS: precedence:<type>:set-sym)
    out["__setsym__"] = set(
        s.name for s in k.unique_defined_syms if s.orig_type in _NUMERIC and any(
            not (K.is_float(v.name) if s.orig_type == K.FLOAT else K._is_base_n(v.name, 16 if s.orig_type == K.HEX else 10))
            for v, _c, _s in list(s.rev_values) + list(s.weak_rev_values)))
    return out


def _dirty_cause(D, W, info):
    """
    Why does a session that has just loaded the tool-written bytes D want to write W != D?  Looks at the options whose
    entries differ and returns
      None         every differing option has an EMPTY active range (lower limit > upper limit) in that configuration:
                   outside the property's quantifier (see _check_c16), nothing is charged;
      ":<cause>"   every differing option (empty ranges aside) shows the same consequence of a recorded root cause;
      ""           anything else (the plain class).
    """
    a, b = _assignments(D), _assignments(W)
    names = sorted(n for n in set(a) | set(b) if a.get(n) != b.get(n))
    causes = set()
    for n in names:
        typ, vis, empty = info.get(n, ("?", None, False))
        ea, eb = a.get(n), b.get(n)
        if empty:
            continue
        if n in info.get("__setsym__", ()):
            causes.add(":numeric-target-of-set-with-symbol-operand")
        elif ea is not None and eb is not None and typ in ("int", "hex", "float") and ea == ("", False) and eb == ("", True):
            # unmarked `CONFIG_X=` (a user value that has no effect + no default): not loadable, comes back marked
            causes.add(":valueless-%s-with-ineffective-user-value:marker-gained" % typ)
        elif ea is not None and ea[1] and vis == 0:
            # a '# default:' entry of an option that is invisible after the load: the load does not keep it
            # (Symbol.resolve_defaults skips invisible options), the session that wrote it had kept it
            causes.add(":marked-default-of-invisible-option-not-kept")
        elif ea is None and eb is not None and eb[1] and vis == 0:
            # no entry in the file (the writing session had the option at n / without a value through a default it had
            # kept from an sdkconfig, invisible, hence unwritten); the load gives the invisible option its Kconfig default
            causes.add(":invisible-option-absent-from-file-gets-kconfig-default")
        else:
            causes.add("")
    if not names:
        return ""
    if not causes:
        return None
    return causes.pop() if len(causes) == 1 else ""


def _fresh_needs_save(ui, D):
    """(needs_save(), bytes it would write, snapshot, _sym_info) of a FRESH session started on a file with the bytes D."""
    key = (ui.case.pv, ui.case.hdr, D)
    memo = ui.case.memo
    if key in memo:
        return memo[key]
    d2 = _mkd("x")
    try:
        k2, st2, _cfg2 = _start(d2, ui.case.text, ui.case.rename, ui.case.pv, D, ui.case.hdr)
        ns = st2.needs_save()
        W2 = _would_write(st2, d2)
        res = (ns, W2, _snap(k2), _sym_info(k2))
    finally:
        os.environ["KCONFIG_CONFIG"] = ui.cfg
        shutil.rmtree(d2, ignore_errors=True)
    if len(memo) > 400:
        memo.clear()
    memo[key] = res
    return res


def _diff_lines(D, W, limit=6):
    a = (D or b"").decode("utf-8", "replace").splitlines()
    b = (W or b"").decode("utf-8", "replace").splitlines()
    import difflib

    out = [x for x in difflib.unified_diff(a, b, "on-disk", "would-write", lineterm="", n=0) if not x.startswith(("---", "+++", "@@"))]
    return "; ".join(out[:limit]) + (" ..." if len(out) > limit else "")


def _check_c16(ui, action, pre):
    """Contracts of C16 after one action (action None = session start)."""
    kind = action[0] if action else "start"
    st = ui.st
    ui.x("ns = st.needs_save()")
    ns = ui.ns["ns"]
    ui.evaluations += 1
    after = "after-" + kind
    if kind == "load":
        after += ":" + ("main" if action[1] == -1 else ui.case.file_kinds[action[1]])
    if kind == "enter" and ui.last.get("typed") and ui.last["typed"][3] is not None:
        after = "after-typed"

    if kind == "save" and ui.last.get("saved"):
        ui.file_origin = "tool"
        ui.saved_once = True
        D = _disk(ui.cfg)
        post = _snap(ui.k)
        ui.evaluations += 2
        ui.nontrivial.add(_crc(ui.case.origin, "save", D))
        if post != pre["snap"]:
            changed = sorted(n for n in post if post[n] != pre["snap"].get(n))
            # Only the '# default:' marker of an unmarked, valueless `CONFIG_X=` line changed (value, visibility and
            # assignable set are the same): the consequence of the recorded root cause C02 marker-gained (a user value
            # without effect keeps the line unmarked, the empty value is not loadable, the reload marks it).
            types = set()
            for n in changed:
                sym = ui.k.syms.get(n)
                a, b = pre["snap"].get(n), post[n]
                if (sym is not None and sym.orig_type in _NUMERIC and a is not None and a[:3] == b[:3] and a[0] == ""
                        and a[3] == "CONFIG_%s=\n" % n and b[3] == "# default:\nCONFIG_%s=\n" % n):
                    types.add(K.TYPE_TO_STR[sym.orig_type])
                else:
                    types.add(None)
            sfx = ":valueless-%s-with-ineffective-user-value:marker-gained" % types.pop() if len(types) == 1 and None not in types else ""
            return _Violation(
                "save-changes-configuration" + sfx, CONTRACTS["C16"][2],
                "the save flow (write_config + reload_sdkconfig_file) changed %s: %s -> %s" % (
                    changed[:4], [pre["snap"].get(n) for n in changed[:2]], [post[n] for n in changed[:2]]),
                "snap(k) != pre", need_pre=True)
        if ns:
            fresh_ns, W2, _s2, _i2 = _fresh_needs_save(ui, D)
            if not fresh_ns:
                cls = "after-save-dirty:session-only"
                why = ("a fresh session on the saved file reports clean: the running session kept a stale baseline "
                       "(_sdkconfig_value of an option that is absent from the re-loaded file)")
            else:
                a, b = _assignments(D), _assignments(W2)
                sub = "same-assignments" if a == b else (
                    "marker-only" if {x: v[0] for x, v in a.items()} == {x: v[0] for x, v in b.items()} else "values")
                cls = "after-save-dirty:fresh-session-too:" + sub
                why = "a fresh session on the saved file wants to save again as well (%s): %s" % (sub, _diff_lines(D, W2))
            return _Violation(cls, CONTRACTS["C16"][1],
                              "needs_save() is True immediately after a successful save; " + why, "st.needs_save()")
        fresh_ns, W2, s2, i2 = _fresh_needs_save(ui, D)
        if fresh_ns:
            # Precondition (quantifier "well-formed Kconfig trees"): no differing option has an EMPTY active range.
            # The documentation defines `range` by a lower and an upper limit of an allowed interval; with lower > upper
            # (bounds given by other options, under the current values) no value is allowed, clamping maps the upper
            # limit to the lower one and back, and NO file can be a fix-point of load + write.  drv_eval excludes the
            # same states ("empty range (low > high)").  Only sessions whose whole difference lies in such options
            # are dropped.
            cause = _dirty_cause(D, W2, i2)
            if cause is not None:
                return _Violation("fresh-session-dirty-on-saved-file" + cause, CONTRACTS["C16"][1],
                                  "the running session is clean after the save, a fresh session on the same file is not: "
                                  + _diff_lines(D, W2), "fresh_dirty(d, TEXT, RENAME, PV, HDR, cfg)")

    if kind == "start" and ui.case.main_kind.startswith("tool"):
        ui.evaluations += 1
        if ns:
            W = _would_write(st, ui.d)
            D = _disk(ui.cfg)
            a, b = _assignments(D), _assignments(W)
            sub = "same-assignments" if a == b else (
                "marker-only" if {x: v[0] for x, v in a.items()} == {x: v[0] for x, v in b.items()} else "values")
            cause = _dirty_cause(D, W, _sym_info(ui.k))  # None: only options with an empty active range differ (see above)
            if cause is not None:
                return _Violation("tool-written-file-dirty-at-start:" + sub + cause, CONTRACTS["C16"][3],
                                  "session start on a file written by the tool's own save flow (%s): needs_save() is True; %s"
                                  % (ui.case.main_kind, _diff_lines(D, W)), "st.needs_save()")

    if kind == "load":
        if action[1] == -1 and ui.last.get("loaded") and pre.get("ns") is False:
            ui.evaluations += 1
            if ns:
                return _Violation("reload-of-own-file-dirty", CONTRACTS["C16"][4],
                                  "clean session, key o + Enter (load the configuration file itself): needs_save() turned True",
                                  "st.needs_save()")
        if ui.last.get("loaded") is False:
            ui.evaluations += 1
            if _snap(ui.k) != pre["snap"] or _ustate(ui.k) != pre["ustate"]:
                return _Violation("failed-load-changes-state", CONTRACTS["C16"][5],
                                  "try_load of an unusable path returned False but the configuration changed",
                                  "snap(k) != pre", need_pre=True)

    if not ns:
        D = _disk(ui.cfg)
        W = _would_write(st, ui.d)
        ui.nontrivial.add(_crc(ui.case.origin, ui.case.pv, D, W, kind))
        if (D or b"") != (W or b""):
            mk = ("cd", D, W)
            if mk not in ui.memo:
                ui.memo[mk] = _classify_clean_differs(ui, D, W)
            difftype, lost = ui.memo[mk]
            origin = ui.file_origin
            # class = kind of difference + kind of file on disk (for a hand-edited file: which hand edit); the key after
            # which it was seen only matters when an edit is lost ("values"), otherwise it is the same finding after any key
            cls = "clean-but-differs:%s:%s" % (difftype, ui.case.main_kind if origin == "hand" else origin + "-file")
            if difftype == "values":
                cls += ":" + after
            detail = ("needs_save() is False (q exits with 'No changes to save') but the file on disk (%s, %s) is not what "
                      "saving would write: %s.  A fresh session on the file on disk %s" % (
                          "absent" if D is None else "%d bytes" % len(D), origin + "-written", _diff_lines(D, W),
                          "gives a DIFFERENT configuration: the edit is lost" if lost else
                          "gives the same configuration: nothing is lost, the difference is in %s" % difftype))
            return _Violation(cls, CONTRACTS["C16"][0], detail,
                              "(not st.needs_save()) and (disk(cfg) or b'') != (would_write(st, d) or b'')")
    return None


def _menu_syms(node):
    """Names of the options (and keys of the choices) inside the subtree of a menu node."""
    names = set()

    def rec(n):
        while n:
            if isinstance(n.item, K.Symbol):
                names.add(n.item.name)
            if n.list:
                rec(n.list)
            n = n.next

    rec(node.list)
    return names


def _choice_keys(k, sc):
    """ustate keys that an edit of option/choice sc may touch."""
    keys = set()
    ch = sc if isinstance(sc, K.Choice) else getattr(sc, "choice", None)
    if isinstance(sc, K.Symbol):
        keys.add(sc.name)
    if ch is not None:
        keys.add("choice:%d" % k.unique_choices.index(ch))
        for s in ch.syms:
            keys.add(s.name)
    return keys


def _udelta(a, b):
    return {n for n in set(a) | set(b) if a.get(n) != b.get(n)}


def _check_c17(ui, action, pre):
    kind = action[0] if action else "start"
    st, k = ui.st, ui.k
    px = ui.phase + ":"
    ui.evaluations += 1
    bad = _inv(st)
    if bad and pre is not None:
        # contract form "requires I, ensures I": a clause that was already broken before the key is not charged again
        bad = [b for b in bad if b.split(":")[0] not in pre["inv_bad"]]
    if bad:
        first = bad[0].split(":")[0]
        return _Violation("%shighlighted-row-missing:%s:after-%s" % (px, first, kind) if first in ("empty-list", "index", "selected-node-raises")
                          else "%s%s:after-%s" % (px, first, kind),
                          CONTRACTS["C17"][1], "after %s: %s" % (_describe(action), "; ".join(bad)), "inv(st)")
    if action is None:
        return None
    post, upost = _snap(k), _ustate(k)
    last = ui.last
    node = last.get("node")
    sc = node.item if node is not None else None
    delta = _udelta(pre["ustate"], upost)
    sig_changed = post != pre["snap"] or delta or pre["sig"] != _sig(ui)
    if sig_changed:
        ui.nontrivial.add(_crc(ui.case.origin, kind, pre["sig"], _sig(ui), sorted(delta)))

    entered = last.get("entered")
    is_nav = kind in NAV_KINDS or (kind in ("enter", "space") and entered)
    if is_nav:
        ui.evaluations += 1
        if post != pre["snap"] or delta:
            return _Violation("ui:navigation-edits:%s" % kind, CONTRACTS["C17"][3],
                              "%s changed the configuration: user values %s" % (_describe(action), sorted(delta)),
                              "snap(k) != pre or ustate(k) != pre_u", need_pre=True)
    if kind in ("left", "esc") and last.get("left_from") is not None:
        ui.evaluations += 1
        if len(st.menu_path()) >= last["path_len"]:
            return _Violation("ui:leave-does-not-leave", CONTRACTS["C17"][2],
                              "leave_menu() did not shorten the menu path %s" % st.menu_path(), "False")
    if kind in ("enter", "space", "y", "n") and not entered and isinstance(sc, (K.Symbol, K.Choice)):
        if pre["locked"].get(id(sc)):
            ui.evaluations += 1
            if post != pre["snap"] or delta:
                how = pre["locked"][id(sc)]
                return _Violation("ui:locked-option-changed:%s%s" % (kind, _locked_suffix(sc, how)), CONTRACTS["C17"][5],
                                  "%s on the row of %s, which is locked by an active set/select (%s), changed %s" % (
                                      _describe(action), ui.label(node), how, sorted(delta) or "values"),
                                  "snap(k) != pre or ustate(k) != pre_u", need_pre=True)
        allowed = _choice_keys(k, sc)
        ui.evaluations += 1
        if not delta <= allowed:
            return _Violation("ui:edit-touches-other-options:%s" % kind, CONTRACTS["C17"][4],
                              "%s on the row of %s changed the user values of %s" % (_describe(action), ui.label(node), sorted(delta - allowed)),
                              "ustate(k) != pre_u", need_pre=True)
        typed = last.get("typed")
        if typed is not None:
            _n, text, ok, val = typed
            ui.evaluations += 1
            if not ok:
                if post != pre["snap"] or delta:
                    return _Violation("ui:rejected-input-applied", CONTRACTS["C17"][6],
                                      "check_valid rejected %r for %s but the configuration changed" % (text, sc.name),
                                      "snap(k) != pre or ustate(k) != pre_u", need_pre=True)
            else:
                ui.nontrivial.add(_crc(ui.case.origin, "typed", sc.name, val, sc.str_value))
                if not _same_value(sc, val):
                    neg = "-" in val
                    tname = K.TYPE_TO_STR[sc.orig_type]
                    nranges = len(sc.ranges)
                    sub = "hex-negative" if (sc.orig_type == K.HEX and neg) else (
                        "%s:%s" % (tname, "multi-range" if nranges > 1 else ("one-range" if nranges else "no-range")))
                    return _Violation("ui:accepted-input-not-applied:" + sub, CONTRACTS["C17"][6],
                                      "check_valid(%s, %r) accepted, app._apply_input applied %r, but the option now has the value %r"
                                      % (sc.name, text, val, sc.str_value),
                                      "ok and not same_value(%s.item, %r)" % (ui.n(node), val))
        elif isinstance(sc, (K.Symbol, K.Choice)) and sc.orig_type == K.BOOL:
            asg = pre["assignable"].get(id(sc))
            if asg is not None:
                ui.evaluations += 1
                want = {"y": 2, "n": 0}.get(kind)
                newv = sc.bool_value
                if want is not None and want not in asg:
                    if post != pre["snap"] or delta:
                        return _Violation("ui:unassignable-value-applied", CONTRACTS["C17"][4],
                                          "key %s on %s whose assignable values were %s changed the configuration" % (kind, ui.label(node), asg),
                                          "snap(k) != pre or ustate(k) != pre_u", need_pre=True)
                elif want is not None and want in asg and newv != want and not pre["locked"].get(id(sc)):
                    return _Violation("ui:assignable-value-not-applied", CONTRACTS["C17"][4],
                                      "key %s on %s (assignable %s): value is %s afterwards" % (kind, ui.label(node), asg, newv),
                                      "%s.item.bool_value != %d" % (ui.n(node), want))
                elif delta and newv not in asg:
                    return _Violation("ui:value-outside-assignable", CONTRACTS["C17"][4],
                                      "%s on %s: new value %s was not in the assignable values %s" % (_describe(action), ui.label(node), newv, asg),
                                      "False")
    if kind == "r" and node is not None:
        ui.evaluations += 1
        if last.get("menu_reset"):
            inside = _menu_syms(node)
            allowed = set(inside)
            for s in inside:
                allowed |= _choice_keys(k, k.syms[s])
            still = sorted(s for s in inside if s in upost)
            if still:
                return _Violation("ui:menu-reset-leaves-user-values", CONTRACTS["C17"][7],
                                  "r on %s (confirmed): %s still have user values" % (ui.label(node), still), "False")
        else:
            allowed = _choice_keys(k, sc) if isinstance(sc, (K.Symbol, K.Choice)) else set()
            if isinstance(sc, K.Symbol) and sc.name in upost:
                return _Violation("ui:reset-leaves-user-value", CONTRACTS["C17"][7],
                                  "r on %s: the option still has a user value" % ui.label(node), "False")
            if isinstance(sc, K.Symbol) and pre["locked"].get(id(sc)) and post[sc.name][0] != pre["snap"][sc.name][0]:
                how = pre["locked"][id(sc)]
                return _Violation("ui:locked-option-changed:r" + _locked_suffix(sc, how), CONTRACTS["C17"][5],
                                  "r on the locked option %s (locked by %s) changed its value" % (sc.name, how),
                                  "snap(k) != pre", need_pre=True)
        if not delta <= allowed:
            return _Violation("ui:reset-touches-other-options", CONTRACTS["C17"][7],
                              "%s changed the user values of %s" % (_describe(action), sorted(delta - allowed)),
                              "ustate(k) != pre_u", need_pre=True)
    return None


def _sig(ui):
    st = ui.st
    return (ui.nid.get(id(st.cur_menu), -1), tuple(ui.nid.get(id(n), -1) for n in st.shown), st.sel_node_i, st.show_all)


def _describe(action):
    if action is None:
        return "session start"
    kind = action[0]
    if kind in ("enter", "space"):
        return "key %s%s" % (kind, "" if action[1] is None else " (typing %r)" % (action[1],))
    if kind == "move":
        return "cursor to row %d" % action[1]
    if kind == "jump":
        return "key / query %r match %d" % (action[1], action[2])
    if kind == "load":
        return "key o (file %d)" % action[1]
    return "key " + kind


# --------------------------------------------------------------------------------------------------
# Sessions
# --------------------------------------------------------------------------------------------------


def _pre_state(ui, prop):
    pre = {"snap": _snap(ui.k), "ustate": _ustate(ui.k)}
    if prop == "C16":
        pre["ns"] = ui.ns.get("ns")
    else:
        pre["sig"] = _sig(ui)
        pre["inv_bad"] = {b.split(":")[0] for b in _inv(ui.st)}
        locked, asg = {}, {}
        cand = list(ui.rows)
        for node in cand:
            if node is not None and isinstance(node.item, (K.Symbol, K.Choice)):
                locked[id(node.item)] = _locked(node.item)
                asg[id(node.item)] = tuple(node.item.assignable)
        pre["locked"], pre["assignable"] = locked, asg
    return pre


def _run_session(case, prop, phase, policy, max_steps, stop=None):
    """
    Runs one session.  policy(ui, step) -> action or None; stop(violation) -> bool (default: always).
    Returns (ui, actions done, violation the session stopped at or None); classes of the violations the
    session went past are in ui.passed.  A library exception is a violation; an exception of the driver
    propagates.
    """
    d = _mkd("s")
    actions = []
    ui = None
    check = _check_c16 if prop == "C16" else _check_c17
    try:
        try:
            ui = _UI(case, prop, d, phase)
        except _LibraryError as e:
            # session start itself raised
            dummy = _Dummy(case, e)
            return dummy, actions, _exception_violation(dummy, None, e, prop, phase)
        if ui.empty:
            return ui, actions, None
        for step in range(-1, max_steps):
            if step < 0:
                action, pre = None, None
            else:
                action = policy(ui, step)
                if action is None:
                    break
                ui.action_no = step
                pre = _pre_state(ui, prop)
                actions.append(action)
            try:
                if action is not None:
                    ui.perform(action)
                v = check(ui, action, pre)
            except _LibraryError as e:
                v = _exception_violation(ui, action, e, prop, phase)
                if v is None:
                    return ui, actions, None  # the real application died here; not charged to this property
            if v is not None:
                if v.fatal or stop is None or stop(v):
                    ui.violation = v
                    return ui, actions, v
                ui.passed.add(v.case_class)
        return ui, actions, None
    finally:
        shutil.rmtree(d, ignore_errors=True)


class _Dummy:
    def __init__(self, case, e):
        self.case = case
        self.lines = [(-1, e.code)]
        self.evaluations = 1
        self.nontrivial = set()
        self.phase = "ui"
        self.passed = set()


# outermost project function of a traceback that belongs to a flow C16 speaks about
_C16_FLOWS = ("load_config", "try_load", "write_config", "reload_sdkconfig_file", "needs_save")


def _exception_violation(ui, action, e, prop, phase):
    if prop == "C16":
        # C16 does not quantify over crashes, but a crash inside its own flows cannot be ignored either.
        # A crash of a navigation / edit method (leave_menu, change_node, check_valid, ...) is not a statement
        # about "nothing needs saving": the session ends there without a C16 violation (C17 charges it).
        if e.where.split(">")[0] not in _C16_FLOWS:
            return None
        cls = "exception:%s:%s" % (e.where, type(e.exc).__name__)
        contract = "no exception in the flows of C16 (load_config, try_load, write_config, reload_sdkconfig_file, needs_save)"
    else:
        cls = "%s:exception:%s:%s" % (phase, e.where, type(e.exc).__name__)
        if any(f in e.where for f in ("leave_menu", "_update_menu", "jump_to", "toggle_show_all", "enter_menu", "_select_selected")) \
                and phase == "ui":
            cls += ":" + _menu_kind(ui)
        contract = CONTRACTS["C17"][0]
    # scratch directory names are random: keep them out of the (otherwise deterministic) detail text
    what = re.sub(r"(?:/[\w.\-]+)*/drvmc[^/\s]*/", "<tmp>/", str(e.exc).strip())
    detail = "%s raised %s: %s (in `%s`)" % (_describe(action), type(e.exc).__name__, what[:160], e.code.split("  #")[0])
    return _Violation(cls, contract, detail, "EXC:" + type(e.exc).__name__)


def _menu_kind(ui):
    """Where the session was when the exception was raised (kind of cur_menu)."""
    st = getattr(ui, "st", None)
    if st is None:
        return "at-start"
    it = st.cur_menu.item
    if st.cur_menu is st.kconf.top_node:
        return "at-top"
    if isinstance(it, K.Choice):
        return "in-choice"
    if isinstance(it, K.Symbol):
        return "in-menuconfig-option"
    return "in-menu"


def _make_script(ui, v, actions):
    case = ui.case
    body = []
    body.append("TEXT = %s" % _lit(case.text))
    body.append("RENAME = %s" % _lit(case.rename))
    body.append("PV = %r   # parser version" % case.pv)
    body.append("HDR = %r  # IDF_TARGET set (sdkconfig gets the ESP-IDF header)" % case.hdr)
    body.append("# initial sdkconfig (%s)" % case.main_kind)
    body.append("MAIN = %s" % _lit(case.main))
    used = sorted({int(m) for _a, line in ui.lines for m in re.findall(r"\bF\[(\d+)\]", line)})
    files = [(name, data) if i in used else (name, None) for i, (name, data) in enumerate(case.files)]
    body.append("FILES = %r" % (files,))
    body.append("")
    body.append("""
def fresh_dirty(d, text, rename, pv, hdr, cfg):
    d2 = tempfile.mkdtemp(prefix="drvmc2_")
    try:
        _k2, st2, _c2 = start(d2, text, rename, pv, disk(cfg), hdr)
        return st2.needs_save()
    finally:
        os.environ["KCONFIG_CONFIG"] = cfg
        shutil.rmtree(d2, ignore_errors=True)
""")
    body.append("def replay(d):")
    exc_kind = v.final.startswith("EXC:")
    last_action = max((a for a, _l in ui.lines), default=-1)
    ind = "    "
    body.append(ind + "ok = err = r = None")
    if exc_kind:
        body.append(ind + "try:")
        ind2 = ind * 2
    else:
        ind2 = ind
    prev = None
    pre_done = False
    for a, line in ui.lines:
        if a != prev and a >= 0:
            body.append(ind2 + "# --- action %d: %s" % (a, _describe(actions[a]) if a < len(actions) else ""))
            prev = a
        if v.need_pre and a == last_action and not pre_done:
            body.append(ind2 + "pre, pre_u = snap(k), ustate(k)")
            pre_done = True
        body.append(ind2 + line)
    if exc_kind:
        body.append(ind + "except %s as e:" % "Exception")
        body.append(ind2 + "import traceback; traceback.print_exc()")
        body.append(ind2 + "in_lib = any(os.path.realpath(f.filename).startswith(os.path.realpath(REPO) + os.sep)"
                           " for f in traceback.extract_tb(e.__traceback__))")
        body.append(ind2 + "if not in_lib:")
        body.append(ind2 + "    print('the replay itself failed (no library frame): violation does not show'); return 0")
        body.append(ind2 + "print('VIOLATION (%s):', type(e).__name__, e)" % v.case_class)
        body.append(ind2 + "return 1 if type(e).__name__ == %r else 0" % v.final[4:])
        body.append(ind + "print('no exception')")
        body.append(ind + "return 0")
    else:
        body.append(ind + "shows = bool(%s)" % v.final)
        body.append(ind + "print(%r if shows else 'violation does not show')" % ("VIOLATION (%s): %s" % (v.case_class, v.detail[:300])))
        body.append(ind + "return 1 if shows else 0")
    return SCRIPT_HEAD + HELPERS + "\n" + "\n".join(body) + "\n" + SCRIPT_MAIN


def _sweep_policy():
    """
    Jump-to sweep (C17: "choices defined in several places"; an option defined in several places has one row per
    definition as well).  For a tree with an option or a choice that has more than one menu node: key / with a query
    that matches everything, then Enter on EVERY match that is one of the menu nodes of such an option / choice (the
    jump-to dialog lists each definition separately) -- once from the session start (normal mode, unless a jump
    itself had to switch show-all on), once after key a, once after another key a.  Trees without multiply defined
    items get no sweep (the random sessions cover them).
    """
    state = {}

    def policy(ui, step):
        if "plan" not in state:
            m, _err = ui.st.search_nodes(".")
            idx = [i for i, node in enumerate(m)
                   if isinstance(node.item, (K.Symbol, K.Choice)) and len(node.item.nodes) > 1][:60]
            state["plan"] = ([("jump", ".", i) for i in idx] + [("a",)]) * 3 if idx else []
        plan = state["plan"]
        return plan[step] if step < len(plan) else None

    return policy


def _minimise(case, prop, phase, actions, cls):
    """Greedy removal of actions (replayed through the same front-end model); keeps the case class."""
    best = list(actions)

    def shows(cand):
        it = iter(cand)

        def policy(_ui, _step):
            return next(it, None)

        ui, done, v = _run_session(case, prop, phase, policy, len(cand) + 1, stop=lambda w: w.case_class == cls)
        if v is not None and v.case_class == cls:
            return ui, done, v
        return None

    res = shows(best)
    if res is None:
        return None
    best = res[1]
    changed = True
    rounds = 0
    while changed and rounds < 3:
        changed = False
        rounds += 1
        i = len(best) - 2
        while i >= 0:
            cand = best[:i] + best[i + 1:]
            r = shows(cand)
            if r is not None:
                res = r
                best = r[1]
                changed = True
            i -= 1
    # simpler initial file?
    return res


# --------------------------------------------------------------------------------------------------
# Work units
# --------------------------------------------------------------------------------------------------

_SMALL = None


def _tree_of(task, seed, n_syms):
    global _SMALL
    kind, key = task
    if kind == "hand":
        text, ren = HAND[key]
        return "hand:" + key, text, ren
    if kind == "small":
        if _SMALL is None:
            _SMALL = list(gen.small_trees(2))
        spec = _SMALL[key]
        return spec.origin, spec.text, spec.rename_text
    spec = gen.gen_tree(random.Random(seed * 1000003 + key), n_syms)
    return "random:%d:%d" % (seed, key), spec.text, spec.rename_text


_MAIN_KINDS = (("tool", 50), ("tool-edited", 14), ("absent", 10), ("hand:unknown", 5), ("hand:duplicates", 5),
               ("hand:no-markers", 6), ("hand:comments", 4), ("lacking", 4), ("hand:deprecated-names", 2))
_FILE_KINDS_16 = ("tool", "alt-choice", "alt-choice", "alt-bool", "alt-typed", "alt-all", "lacking", "missing-path", "hand:unknown")
_FILE_KINDS_17 = ("tool", "alt-choice", "alt-bool", "alt-all", "lacking", "missing-path", "directory", "not-utf8", "hand:unknown")


def _work(arg):
    task, prop, tier, seed = arg
    cfgt = TIERS[tier]
    t0 = time.time()
    origin, text, rename = _tree_of(task, seed, cfgt["n_syms"])
    n_sessions = cfgt["s_hand"] if task[0] == "hand" else (cfgt["s_small"] if task[0] == "small" else cfgt["s_random"])
    res = {"evaluations": 0, "nontrivial": set(), "violations": {}, "counts": {}, "sessions": 0, "actions": 0,
           "sample": None, "error": None}
    try:
        files_cache = {}
        alias = {}
        tree_memo = {}
        # C17: two more sessions per tree (one per parser) that are not random: the jump-to sweep (_sweep_policy)
        defs = re.findall(r"^\s*(?:config|menuconfig|choice)[ \t]+([A-Za-z0-9_]+)", text, re.M)
        n_sweep = 2 if prop == "C17" and len(defs) != len(set(defs)) else 0  # only trees with a name defined twice
        for s in range(n_sessions + n_sweep):
            sweep = s >= n_sessions
            rng = random.Random(_crc(seed, origin, s, prop))
            pv = (1 + (s - n_sessions) % 2) if sweep else (2 if s % 3 == 2 else 1)
            hdr = (s % 5 == 3) and not sweep
            key = (pv, hdr)
            if key not in files_cache:
                files_cache[key] = _prepare_files(text, rename, pv, hdr, random.Random(_crc(seed, origin, key)))
            fk = files_cache[key]
            if prop == "C16":
                mk = _pick(rng, _MAIN_KINDS)
                if mk == "tool-edited":
                    main = fk.get("alt-all") or fk["tool"]
                elif mk == "absent":
                    main = None
                else:
                    main = fk.get(mk)
                    if main is None:
                        mk, main = "tool", fk["tool"]
                kinds = _FILE_KINDS_16
                phase = "ui"
            else:
                if sweep:
                    mk, main = "tool", fk["tool"]
                elif s % 3 == 0:
                    mk, main = "absent", None
                elif s % 6 != 5 or fk.get("alt-all") is None:
                    mk, main = "tool", fk["tool"]
                else:
                    mk, main = "tool-edited", fk["alt-all"]
                kinds = _FILE_KINDS_17 if s % 4 == 1 else tuple(x for x in _FILE_KINDS_17 if x != "not-utf8")
                phase = "ui"
            files, file_kinds = [], []
            for i, kd in enumerate(kinds):
                data = fk.get(kd)
                if data is None and kd not in ("missing-path",):
                    continue
                files.append(("file%d.%s" % (i, kd.replace(":", "-")), data))
                file_kinds.append(kd)
            case = _Case(origin, text, rename, pv, hdr, main, mk, files, file_kinds)
            case.memo = tree_memo
            weights = W16 if prop == "C16" else W17

            def policy(ui, _step, rng=rng, weights=weights):
                return _random_action(ui, rng, weights)

            if sweep:
                policy = _sweep_policy()

            ui, actions, v = _run_session(case, prop, phase, policy, 400 if sweep else cfgt["steps"],
                                          stop=lambda w: alias.get(w.case_class, w.case_class) not in res["violations"])
            for c in ui.passed:
                c = alias.get(c, c)
                res["counts"][c] = res["counts"].get(c, 0) + 1
            res["sessions"] += 1
            res["actions"] += len(actions)
            res["evaluations"] += ui.evaluations
            res["nontrivial"] |= ui.nontrivial
            if res["sample"] is None and actions:
                res["sample"] = {"tree": origin, "parser": pv, "initial_file": mk, "phase": phase,
                                 "actions": [_describe(a) for a in actions[:8]]}
            if v is not None:
                cls = alias.get(v.case_class, v.case_class)
                if cls not in res["violations"]:
                    m = _minimise(case, prop, phase, actions, v.case_class)
                    if m is not None:
                        ui, actions, v = m
                    cls = v.case_class
                res["counts"][cls] = res["counts"].get(cls, 0) + 1
                if cls not in res["violations"]:
                    res["violations"][v.case_class] = {
                        "case_class": v.case_class, "contract": v.contract,
                        "detail": "[%s, parser %d, initial file: %s] %s" % (origin, pv, mk, v.detail),
                        "script": _make_script(ui, v, actions),
                        "_size": (len(actions), len(text), origin),
                    }
    except Exception:  # noqa: BLE001 - driver error
        res["error"] = "task %r: %s" % (task, traceback.format_exc())
    res["nontrivial"] = sorted(res["nontrivial"])
    res["seconds"] = time.time() - t0
    return res


def _init_worker(root=None):
    if root is not None:
        _WORK_ROOT[0] = tempfile.mkdtemp(prefix="w%d_" % os.getpid(), dir=root)
    gen.scrub_env()
    for v in ("IDF_TARGET", "IDF_INIT_VERSION", "IDF_VERSION"):
        os.environ.pop(v, None)
    gen.silence_library_log()
    try:
        devnull = os.open(os.devnull, os.O_WRONLY)
        os.dup2(devnull, 1)
        os.dup2(devnull, 2)
    except OSError:
        pass


def run(prop, tier, seed, jobs):
    t0 = time.time()
    out = {"name": NAME, "property": prop, "kind": "bounded", "status": "ok"}
    try:
        if prop not in PROPERTIES:
            raise ValueError("unknown property %r" % prop)
        if tier not in TIERS:
            raise ValueError("unknown tier %r" % tier)
        if not os.path.realpath(K.__file__).startswith(os.path.realpath(_REPO) + os.sep):
            raise RuntimeError("esp_kconfiglib imported from %s, not from %s" % (K.__file__, _REPO))
        cfgt = TIERS[tier]
        n_small = len(list(gen.small_trees(2)))
        tasks = [("hand", h) for h in HAND_ORDER] + [("small", i) for i in range(n_small)] + [("random", i) for i in range(cfgt["count"])]
        args = [(t, prop, tier, seed) for t in tasks]
        ctx = multiprocessing.get_context("fork")
        shm = "/dev/shm" if os.path.isdir("/dev/shm") and os.access("/dev/shm", os.W_OK) else None
        root = tempfile.mkdtemp(prefix="drvmc_run_", dir=shm)
        try:
            with ctx.Pool(max(1, int(jobs)), initializer=_init_worker, initargs=(root,)) as pool:
                results = pool.map(_work, args, chunksize=4)
        finally:
            shutil.rmtree(root, ignore_errors=True)
        evaluations = 0
        nontrivial = set()
        viol = {}
        counts = {}
        samples = []
        sessions = actions = 0
        errors = []
        for r in results:
            if r["error"]:
                errors.append(r["error"])
                continue
            evaluations += r["evaluations"]
            nontrivial.update(r["nontrivial"])
            sessions += r["sessions"]
            actions += r["actions"]
            if r["sample"] and len(samples) < 5 and (len(samples) < 2 or r["sample"]["tree"].startswith("random")):
                samples.append(r["sample"])
            for c, n in r["counts"].items():
                counts[c] = counts.get(c, 0) + n
            for c, v in r["violations"].items():
                if c not in viol or v["_size"] < viol[c]["_size"]:
                    viol[c] = v
        if errors:
            out["status"] = "checker_error"
            out["reason"] = errors[0][-1500:]
        violations = []
        for c in sorted(viol):
            v = dict(viol[c])
            v.pop("_size")
            v["detail"] += "  (%d session(s) of this run ended in this class)" % counts[c]
            violations.append(v)
        out.update({
            "bound": (
                "trees: %d hand-written trees (%s), the %d trees of rtc.gen.small_trees(2), %d random trees "
                "gen_tree(Random(seed*1000003+i), %d) with DEFAULT_FEATURES (<= %d options; menus, visible if, menuconfig, "
                "implicit submenus, choices, ranges, select/imply/set, two definitions, rename files); parser version 2 in every third session, else 1; every 5th session with IDF_TARGET set (ESP-IDF header). "
                "histories: %d/%d/%d sessions per hand/small/random tree, each <= %d keys of the front end replayed on "
                "MenuConfigState (cursor, Enter, Space, Left, Escape, y, n, a, r(+confirm), / jump-to, o load, s save, q), "
                "typed texts: fixed table per type (int/hex/float/string spellings incl. '2', '1.50', '1e0', ' 2 ', '+5', "
                "'-5', '-0x5', '1_0', 'nan', non-ASCII) plus every bound of the option's range lines +-1. "
                "files: initial sdkconfig absent / written by the tool (defaults; defaults + choice pick + bool + typed "
                "value) / hand-edited (unknown entry, duplicated entries, markers removed, comments and blank lines, "
                "deprecated names, every second entry removed); loaded files: the configuration file itself, tool-written "
                "alternates differing from the default file in ONE choice selection / one bool / one typed value / all, a "
                "file lacking every second option, a missing path%s. %s"
                % (len(HAND_ORDER), ", ".join(HAND_ORDER), n_small, cfgt["count"], cfgt["n_syms"], cfgt["n_syms"],
                   cfgt["s_hand"], cfgt["s_small"], cfgt["s_random"], cfgt["steps"],
                   "" if prop == "C16" else ", a directory, a file that is not UTF-8",
                   "%s: %d sessions, %d keys (keys of the front end only; no API-level calls)." % (prop, sessions, actions))),
            "rule": (
                "hand and small trees are fixed; random tree i is drawn from Random(seed*1000003+i); session s of a tree draws "
                "its keys from Random(crc32(seed, tree, s, property)) with fixed weights. C17 adds, for every tree in which "
                "an option or a choice is defined more than once, two fixed sessions (parser 1 and 2): jump-to (key /) to every "
                "menu node of every multiply defined option and choice, three passes separated by key a (show-all). A session "
                "stops at its first violation; the first history of each case class is reduced by greedy removal of keys "
                "and the smallest one over all trees is reported."),
            "contracts": CONTRACTS[prop],
            "evaluations": evaluations,
            "distinct_nontrivial": len(nontrivial),
            "samples": samples,
            "violations": violations,
        })
    except Exception:  # noqa: BLE001
        out["status"] = "checker_error"
        out["reason"] = traceback.format_exc()[-2000:]
        out.setdefault("bound", "")
        out.setdefault("rule", "")
        out.setdefault("contracts", CONTRACTS.get(prop, []))
        out.setdefault("evaluations", 0)
        out.setdefault("distinct_nontrivial", 0)
        out.setdefault("samples", [])
        out.setdefault("violations", [])
    out["seconds"] = round(time.time() - t0, 2)
    return out


def main(argv=None):
    argv = list(sys.argv[1:] if argv is None else argv)
    prop = argv[0] if argv else "C16"
    tier = argv[1] if len(argv) > 1 else "quick"
    seed = int(argv[2]) if len(argv) > 2 else 0
    jobs = int(argv[3]) if len(argv) > 3 else (os.cpu_count() or 4)
    res = run(prop, tier, seed, jobs)
    json.dump(res, sys.stdout, indent=1, sort_keys=True, default=lambda o: o.decode("utf-8", "replace") if isinstance(o, bytes) else repr(o))
    sys.stdout.write("\n")
    return 0 if res["status"] == "ok" else 2


if __name__ == "__main__":
    sys.exit(main())
