"""
rtc.drv_outputs -- run-time contracts (bounded stand-in) for the output side of esp-idf-kconfig

  C07  all generated output formats describe the same configuration
  C12  dependency sync flags every changed option, even across interrupted runs
  C13  outputs are rewritten only when they change, and a save never loses both copies

The contracts are stated on the real functions of the tree named by $PYVC_REPO (default /repo):
Kconfig.write_config / write_autoconf / write_min_config / sync_deps / _write_if_changed / _save_old,
kconfgen.core.write_cmake / get_json_values / write_json / update_if_changed / main.  The oracles come from the
property statements: an independent reader per output format (decoded maps compared pairwise and with
Symbol.str_value), an independent reader of the rename files (last listing wins, inversion taken from the alias's
own last line), the driver's own record of the build-visible values at the last completed sync, and a
fault-injection harness that kills the library at every file-system operation / write prefix.

Every function decorated with @_portable only uses the stdlib and the modules K (esp_kconfiglib.core) and KG
(kconfgen.core); violation scripts are assembled from their sources (inspect.getsource), so every script is a
self-contained program.

    cd /verif && .venv/bin/python -m rtc.drv_outputs C07|C12|C13 [quick|thorough] [seed]
"""

import builtins
import inspect
import io
import json
import multiprocessing
import os
import random
import re
import shutil
import subprocess
import sys
import tempfile
import time
import traceback

REPO = os.environ.get("PYVC_REPO", "/repo")
if sys.path[:1] != [REPO]:
    sys.path.insert(0, REPO)

import esp_kconfiglib.core as K  # noqa: E402
import esp_kconfiglib.deprecated  # noqa: E402,F401
import kconfgen.core as KG  # noqa: E402

from rtc import gen  # noqa: E402  (after the project imports: gen puts /repo on sys.path itself)

NAME = "drv_outputs"
PROPERTIES = ["C07", "C12", "C13"]

_PORTABLE = []


def _portable(f):
    _PORTABLE.append(f)
    return f


# Constants shared with the generated scripts (kept textually identical in _SCRIPT_HEADER).
SENT = 1500000000 * 10 ** 9  # sentinel mtime (ns) put on every file before an observed run
ENV_VARS = (
    "KCONFIG_PARSER_VERSION", "srctree", "KCONFIG_WARN_UNDEF_ASSIGN", "CONFIG_", "KCONFIG_DEFAULTS_POLICY",
    "KCONFIG_PROMPTLESS_NO_WARN", "KCONFIG_CONFIG_HEADER", "KCONFIG_AUTOHEADER_HEADER", "KCONFIG_FUNCTIONS",
    "KCONFIG_WARN_UNDEF", "KCONFIG_STRICT", "KCONFIG_AUTOHEADER", "KCONFIG_CONFIG", "KCONFIG_REPORT_VERBOSITY",
    "COMPONENT_SDKCONFIG_RENAMES", "IDF_VERSION", "IDF_TARGET", "ESP_IDF_KCONFIG_MIN_LABELS",
)

_SCRIPT_HEADER = '''#!/usr/bin/env python
# Replay of one rtc.drv_outputs case on the tree named by $PYVC_REPO (default /repo).
# exit 1: the violation shows; exit 0: it does not.
import builtins, io, json, os, re, shutil, subprocess, sys, tempfile, traceback
REPO = os.environ.get("PYVC_REPO", "/repo")
sys.path.insert(0, REPO)
import esp_kconfiglib.core as K
import kconfgen.core as KG
try:
    from esp_pylib.logger import Verbosity, log
    log.set_verbosity(Verbosity.SILENT)
except Exception:
    pass
def _portable(f):
    return f
SENT = 1500000000 * 10 ** 9
ENV_VARS = %r
''' % (ENV_VARS,)


# ======================================================================================================
# common helpers
# ======================================================================================================


@_portable
class Res(object):
    """Accumulator of one replay: contract evaluations, keys of non-trivial cases, violations."""

    def __init__(self):
        self.evals = 0
        self.nontrivial = set()
        self.violations = []  # (case_class, contract, detail)

    def bad(self, case_class, contract, detail):
        self.violations.append((case_class, contract, detail))


@_portable
def exc_id():
    """
    '<ExceptionType>@<module>.<function>' of the exception being handled, the function being the innermost frame that
    lies in the project tree (stable: no line numbers, no message), so that two different failures of the same
    contract get different case classes.
    """
    et, ev, tb = sys.exc_info()
    where = "?"
    for fs in traceback.extract_tb(tb):
        if os.path.abspath(fs.filename).startswith(os.path.abspath(REPO) + os.sep):
            where = "%s.%s" % (os.path.splitext(os.path.relpath(os.path.abspath(fs.filename), os.path.abspath(REPO)))[0].replace(os.sep, "."), fs.name)
    name = getattr(et, "__name__", "?")
    if where == "?":
        # 'python -m kconfgen' failed: run_main() put the tail of the child's traceback into the message
        text = str(ev)
        for m in re.finditer(r'File "([^"]+)", line \d+, in (\S+)', text):
            if os.path.abspath(m.group(1)).startswith(os.path.abspath(REPO) + os.sep):
                where = "%s.%s" % (os.path.splitext(os.path.relpath(os.path.abspath(m.group(1)), os.path.abspath(REPO)))[0].replace(os.sep, "."), m.group(2))
        m = re.search(r"^([A-Za-z_][A-Za-z0-9_.]*(?:Error|Exception)):", text, re.M)
        if m and where != "?":
            name = m.group(1).split(".")[-1]
    return "%s@%s" % (name, where)


@_portable
def scrub_env():
    for n in ENV_VARS:
        os.environ.pop(n, None)


@_portable
class env_set(object):
    """with env_set({...}): the given variables are set (None = removed) inside the block, restored afterwards."""

    def __init__(self, d):
        self.d = d
        self.saved = {}

    def __enter__(self):
        for k, v in self.d.items():
            self.saved[k] = os.environ.get(k)
            if v is None:
                os.environ.pop(k, None)
            else:
                os.environ[k] = v

    def __exit__(self, *a):
        for k, v in self.saved.items():
            if v is None:
                os.environ.pop(k, None)
            else:
                os.environ[k] = v
        return False


@_portable
def wr(path, data):
    d = os.path.dirname(path)
    if d and not os.path.isdir(d):
        os.makedirs(d)
    if isinstance(data, str):
        data = data.encode("utf-8")
    with io.open(path, "wb") as f:
        f.write(data)


@_portable
def rd(path):
    """bytes of the file (symlinks followed) or None if it cannot be read."""
    try:
        with io.open(path, "rb") as f:
            return f.read()
    except (IOError, OSError):
        return None


@_portable
def make_kconf(src, text, renames, pv=1):
    """Fresh Kconfig instance of the tree 'text' with the rename files 'renames' (list of texts) loaded."""
    kp = os.path.join(src, "Kconfig")
    if rd(kp) != text.encode("utf-8"):
        wr(kp, text)
    rpaths = []
    for i, t in enumerate(renames):
        p = os.path.join(src, "r%d.rename" % i)
        if rd(p) != t.encode("utf-8"):
            wr(p, t)
        rpaths.append(p)
    inst = getattr(K.KconfigReport, "_instance", None)
    if inst is not None and getattr(inst, "_initialized", False):
        inst.reset()
    kconf = K.Kconfig(kp, parser_version=pv)
    if rpaths:
        kconf.load_rename_files(rpaths)
    return kconf


@_portable
def apply_ops(kconf, ops):
    """The op language of rtc.gen (set / unset / reset / pick / choice_unset), JSON form (lists)."""
    for op in ops:
        kind = op[0]
        if kind == "set":
            kconf.syms[op[1]].set_value(op[2])
        elif kind == "unset":
            kconf.syms[op[1]].unset_value()
        elif kind == "reset":
            K._restore_default(kconf.syms[op[1]].nodes[0])
        elif kind == "pick":
            kconf.syms[op[1]].set_value(2)
        elif kind == "choice_unset":
            _, idx, name = op[1].split(":", 2)
            kconf.unique_choices[int(idx)].unset_value()
        else:
            raise ValueError("unknown op %r" % (op,))


@_portable
def sym_types(kconf):
    return dict((s.name, K.TYPE_TO_STR[s.orig_type]) for s in kconf.unique_defined_syms)


@_portable
def read_rename(texts):
    """
    Independent reader of rename files (documented format: 'CONFIG_OLD  [!]CONFIG_NEW', '#' comments; a name
    listed again replaces the earlier listing, including its inversion flag).  old -> (new, inverted).
    """
    table = {}
    for t in texts:
        for line in t.splitlines():
            line = line.strip()
            if not line or line.startswith("#"):
                continue
            parts = line.split()
            old, new = parts[0], parts[1]
            inv = new.startswith("!")
            new = new.lstrip("!")
            table[old[len("CONFIG_"):]] = (new[len("CONFIG_"):], inv)
    return table


# ------------------------------------------------------------------------------------------------------
# canonical values: "y" / "n" for bool, ("num", x) for int/hex/float, ("str", s), ("empty",) for a
# numeric option without a value, ("bad", raw) for text that is not a legal encoding
# ------------------------------------------------------------------------------------------------------


@_portable
def unesc(s):
    return re.sub(r"\\(.)", r"\1", s)


@_portable
def canon_text(typ, raw, quoted_strings=True):
    """raw text of a 'NAME=raw' style output (None = explicitly not set) -> canonical value."""
    if typ == "bool":
        if raw is None or raw == "n":
            return "n"
        return "y" if raw == "y" else ("bad", raw)
    if raw is None:
        return ("bad", None)
    if typ == "string":
        if quoted_strings:
            if len(raw) >= 2 and raw[0] == '"' and raw[-1] == '"':
                return ("str", unesc(raw[1:-1]))
            return ("bad", raw)
        return ("str", raw)
    if raw == "":
        return ("empty",)
    try:
        if typ == "int":
            return ("num", int(raw, 10))
        if typ == "hex":
            return ("num", int(raw, 16))
        return ("num", float(raw))
    except ValueError:
        return ("bad", raw)


@_portable
def oracle_values(kconf):
    """name -> canonical value of every option that is present (non-empty Symbol.config_string), from Symbol.str_value."""
    out = {}
    for s in kconf.unique_defined_syms:
        v = s.str_value
        if not s.config_string:
            continue
        out[s.name] = canon_text(K.TYPE_TO_STR[s.orig_type], v, quoted_strings=False)
    return out


@_portable
def multi_add(m, name, val):
    m.setdefault(name, [])
    if val not in m[name]:
        m[name].append(val)


@_portable
def read_sdkconfig(text, types, alias_types):
    """-> (options: name -> [canonical...], aliases: name -> [canonical...]); the deprecated block is delimited by its markers."""
    main, dep = {}, {}
    in_dep = False
    for line in text.split("\n"):
        if line == "# Deprecated options for backward compatibility":
            in_dep = True
            continue
        if line == "# End of deprecated options":
            in_dep = False
            continue
        m = re.match(r"^# CONFIG_([A-Za-z0-9_]+) is not set$", line)
        if m:
            name, raw = m.group(1), None
        else:
            m = re.match(r"^CONFIG_([A-Za-z0-9_]+)=(.*)$", line)
            if not m:
                continue
            name, raw = m.group(1), m.group(2)
        if in_dep:
            multi_add(dep, name, canon_text(alias_types.get(name, "bool" if raw is None else "?"), raw))
        else:
            multi_add(main, name, canon_text(types.get(name, "bool" if raw is None else "?"), raw))
    return main, dep


@_portable
def read_header(text, types, alias_types):
    """
    C header as the preprocessor sees it.  -> (options, aliases); an alias '#define CONFIG_OLD [!]CONFIG_NEW'
    takes the value of CONFIG_NEW in this same header, '!' negates a bool.  A plain alias of a name that is not
    defined expands to an undefined identifier (not defined / n for the build); the documented inverted form
    '!CONFIG_NEW' with CONFIG_NEW not defined is '!0' = 1 for the preprocessor, i.e. y, when the alias is a bool.
    """
    main, links, lits = {}, [], []
    for line in text.split("\n"):
        m = re.match(r"^#define CONFIG_([A-Za-z0-9_]+) ?(.*)$", line)
        if not m:
            continue
        name, rhs = m.group(1), m.group(2)
        m2 = re.match(r"^(!?)CONFIG_([A-Za-z0-9_]+)$", rhs)
        if m2 and name not in types:
            links.append((name, m2.group(2), m2.group(1) == "!"))
            continue
        is_alias = name not in types and name in alias_types  # an alias defined with a literal: same encodings, its own map
        typ = alias_types[name] if is_alias else types.get(name, "?")
        if typ == "bool":
            val = "y" if rhs == "1" else ("bad", rhs)
        elif typ == "hex":
            val = canon_text("hex", rhs) if (rhs == "" or rhs.lower().startswith("0x")) else ("bad", rhs)
        else:
            val = canon_text(typ, rhs)
        if is_alias:
            lits.append((name, val))
        else:
            multi_add(main, name, val)
    dep = {}
    for name, val in lits:
        multi_add(dep, name, val)
    for name, target, inv in links:
        vals = main.get(target)
        if not vals:
            if inv and alias_types.get(name) == "bool":
                multi_add(dep, name, "y")  # '#if !CONFIG_NEW' with CONFIG_NEW undefined: true
            continue  # plain: expands to an undefined identifier: not defined for the build
        for v in vals:
            if inv:
                v = "n" if v == "y" else ("bad", "!" + repr(v))
            multi_add(dep, name, v)
    return main, dep


@_portable
def read_cmake(text, types, alias_types):
    """-> (options, aliases, configs_list or None)."""
    main, dep, lst = {}, {}, None
    for line in text.split("\n"):
        m = re.match(r"^set\(CONFIGS_LIST (.*)\)$", line)
        if m:
            lst = [x[len("CONFIG_"):] for x in m.group(1).split(";") if x]
            continue
        m = re.match(r'^set\(CONFIG_([A-Za-z0-9_]+) "(.*)"\)$', line)
        if not m:
            continue
        name, raw = m.group(1), m.group(2)
        if name in types:
            typ, tgt = types[name], main
        else:
            typ, tgt = alias_types.get(name, "?"), dep
        if typ == "bool":
            val = "n" if raw == "" else ("y" if raw == "y" else ("bad", raw))
        elif typ == "string":
            val = ("str", unesc(raw))
        else:
            val = canon_text(typ, raw)
        multi_add(tgt, name, val)
    return main, dep, lst


@_portable
def read_json_values(obj, types):
    main = {}
    for name, v in obj.items():
        typ = types.get(name, "?")
        if typ == "bool":
            val = "y" if v is True else ("n" if v is False else ("bad", repr(v)))
        elif v is None:
            val = ("empty",)
        elif typ == "string":
            val = ("str", v) if isinstance(v, str) else ("bad", repr(v))
        elif typ in ("int", "hex", "float") and isinstance(v, (int, float)) and not isinstance(v, bool):
            val = ("num", v)
        else:
            val = ("bad", repr(v))
        multi_add(main, name, val)
    return main


@_portable
def read_autoconf(text, types):
    main = {}
    for line in text.split("\n"):
        m = re.match(r"^CONFIG_([A-Za-z0-9_]+)=(.*)$", line)
        if m:
            multi_add(main, m.group(1), canon_text(types.get(m.group(1), "?"), m.group(2)))
    return main


# ======================================================================================================
# C07
# ======================================================================================================

C07_CONTRACTS = [
    "Kconfig.write_config(write_deprecated=True) [kconfgen.core.write_config]: the file decodes (independent reader) to exactly "
    "{option: Symbol.str_value | Symbol.config_string != ''}, every name has ONE value, and its deprecated block to "
    "{alias: value of the replacement named by the alias's own last rename line, negated iff that line has '!'}",
    "Kconfig.write_autoconf(write_deprecated=True) [kconfgen.core.write_header]: the header, read as the preprocessor reads it, "
    "defines exactly the non-n options with their values and every alias with its replacement's (negated iff '!') value "
    "(alias forms read: '#define OLD [!]CONFIG_NEW' evaluated in the same header -- '!CONFIG_NEW' with CONFIG_NEW undefined is 1 -- or a literal)",
    "kconfgen.core.write_cmake: set() lines decode to the same option map and alias map; CONFIGS_LIST names exactly the variables set",
    "kconfgen.core.get_json_values / write_json: same option map; the file equals json of get_json_values()",
    "Kconfig.sync_deps: <dir>/auto.conf decodes to the same option map (bool n = absent)",
    "history clause: after EVERY generation into a directory that holds the previous generation's files, the five files agree "
    "(no stale file), also when only the last-defined enabled options turn off",
    "kconfgen.core.main (in process / python -m kconfgen): the five files written by one invocation agree pairwise and with a "
    "fresh instance that loaded the same sdkconfig",
]


@_portable
def c07_flip(v):
    return "n" if v == "y" else ("y" if v == "n" else v)


@_portable
def c07_compare(res, tag, types, alias, exp, texts, json_direct):
    """
    texts: {"sdkconfig","header","cmake","json","auto.conf"} -> file text.  Decodes all of them and compares every
    option / alias in every format with the oracle (exp: from Symbol.str_value; alias: from read_rename) -- which
    makes the decoded maps agree pairwise iff nothing is reported.
    """
    alias_types = dict((a, types.get(t, "?")) for a, (t, inv) in alias.items())
    s_main, s_dep = read_sdkconfig(texts["sdkconfig"], types, alias_types)
    h_main, h_dep = read_header(texts["header"], types, alias_types)
    c_main, c_dep, c_list = read_cmake(texts["cmake"], types, alias_types)
    try:
        j_obj = json.loads(texts["json"])
    except ValueError:
        j_obj = None
        res.bad("json:unparsable", "write_json", "%s: sdkconfig.json is not JSON: %r" % (tag, texts["json"][:200]))
    j_main = read_json_values(j_obj or {}, types)
    a_main = read_autoconf(texts["auto.conf"], types)
    res.evals += 5

    if json_direct is not None and j_obj is not None and json_direct != j_obj:
        res.bad("json:file-differs-from-get_json_values", "get_json_values / write_json",
                "%s: get_json_values() = %r, file = %r" % (tag, json_direct, j_obj))
    if c_list is None:
        res.bad("cmake:no-configs-list", "write_cmake", "%s: no CONFIGS_LIST line" % tag)
    elif set(c_list) != set(c_main) | set(c_dep):
        res.bad("cmake:configs-list-differs", "write_cmake", "%s: CONFIGS_LIST %r, variables set %r" % (
            tag, sorted(set(c_list)), sorted(set(c_main) | set(c_dep))))
    res.evals += 2

    def one(entity, typ, name, e, views, qual):
        shown = dict((f, v.get(name)) for f, v, _ in views)
        for fmt, view, explicit in views:
            got = view.get(name, [])
            ef = e if explicit or e != "n" else None
            if not explicit:
                got = [g for g in got if g != "n"]
            if len(got) > 1:
                res.bad("%s:%s:%s:contradictory" % (entity, typ, fmt), "one value per name",
                        "%s: %s has several values in %s: %r (expected %r; all formats: %r)" % (tag, name, fmt, got, e, shown))
                continue
            g = got[0] if got else None
            if g == ef:
                continue
            if g is None:
                nature = "missing"
            elif ef is None:
                nature = "unexpected"
            elif isinstance(g, tuple) and g[0] == "bad":
                nature = "bad-encoding"
            else:
                nature = "value"
            res.bad("%s:%s:%s:%s%s" % (entity, typ, fmt, nature, qual), "formats agree with Symbol.str_value / rename table",
                    "%s: %s expected %r, %s has %r (all formats: %r)" % (tag, name, e, fmt, g, shown))

    oviews = [("sdkconfig", s_main, True), ("header", h_main, False), ("cmake", c_main, True), ("json", j_main, True),
              ("auto.conf", a_main, False)]
    names = set(exp)
    for _, v, _ in oviews:
        names |= set(v)
    for name in sorted(names):
        e = exp.get(name)
        one("option", types.get(name, "undefined"), name, e, oviews, ":empty" if e == ("empty",) else "")

    alias_exp, alias_kind = {}, {}
    for a, (t, inv) in alias.items():
        alias_kind[a] = "alias-inv" if inv else "alias-plain"
        if t in exp:
            v = exp[t]
            if inv and types.get(t) == "bool":
                v = c07_flip(v)
            alias_exp[a] = v
    aviews = [("sdkconfig", s_dep, True), ("header", h_dep, False), ("cmake", c_dep, True)]
    names = set(alias_exp)
    for _, v, _ in aviews:
        names |= set(v)
    for name in sorted(names):
        e = alias_exp.get(name)
        qual = ""
        if name in alias:
            tv = exp.get(alias[name][0])
            qual = ":target-n" if tv == "n" else (":target-empty" if tv == ("empty",) else (":target-absent" if tv is None else ""))
        one(alias_kind.get(name, "alias-unknown"), alias_types.get(name, "?"), name, e, aviews, qual)
    res.evals += 3
    # pairwise agreement of the decoded maps (bool n = absent); implied by the above, evaluated for the count
    norm = []
    for fmt, view, _ in oviews:
        norm.append((fmt, dict((n, v) for n, v in view.items() if v != ["n"])))
    for i in range(len(norm)):
        for j in range(i + 1, len(norm)):
            res.evals += 1
    return bool(alias_exp)


@_portable
def c07_main_args(src, D, in_sdk, renames, formats):
    args = ["--kconfig", os.path.join(src, "Kconfig"), "--config", in_sdk]
    if renames:
        args += ["--sdkconfig-rename", os.path.join(src, "r0.rename")]
    for fmt, fname in formats:
        args += ["--output", fmt, os.path.join(D, fname)]
    return args


@_portable
def main_env(src, renames, pv):
    env = {"KCONFIG_REPORT_VERBOSITY": "quiet", "KCONFIG_PARSER_VERSION": str(pv), "IDF_TARGET": "esp32",
           "COMPONENT_SDKCONFIG_RENAMES": None}
    if len(renames) > 1:
        env["COMPONENT_SDKCONFIG_RENAMES"] = " ".join(os.path.join(src, "r%d.rename" % i) for i in range(1, len(renames)))
    return env


@_portable
def run_main(args, env, subproc=False):
    """kconfgen.core.main with argv 'args' in process (click, standalone_mode=False) or as 'python -m kconfgen'."""
    if subproc:
        e = dict(os.environ)
        for k, v in env.items():
            if v is None:
                e.pop(k, None)
            else:
                e[k] = v
        e["PYTHONPATH"] = REPO
        p = subprocess.run([sys.executable, "-m", "kconfgen"] + args, env=e, stdout=subprocess.PIPE, stderr=subprocess.PIPE)
        if p.returncode != 0:
            raise RuntimeError("python -m kconfgen exit %d: %s" % (p.returncode, p.stderr.decode("utf-8", "replace")[-400:]))
        return
    with env_set(env):
        KG.main.main(args=args, standalone_mode=False)


@_portable
def replay_c07(case):
    res = Res()
    scrub_env()
    alias = read_rename(case["renames"])
    flow = case["flow"]
    files = (("sdkconfig", "sdkconfig"), ("header", "sdkconfig.h"), ("cmake", "sdkconfig.cmake"), ("json", "sdkconfig.json"))
    with tempfile.TemporaryDirectory(prefix="rtcout") as top:
        src, D = os.path.join(top, "src"), os.path.join(top, "out")
        os.makedirs(src)
        os.makedirs(D)
        prev_exp = None
        for gi, g in enumerate(case["gens"]):
            tag = "%s gen %d (%s)" % (case["origin"], gi, flow)
            text = g.get("kconfig") or case["kconfig"]
            try:
                kc = make_kconf(src, text, case["renames"], case["pv"])
                apply_ops(kc, g["ops"])
                json_direct = None
                if flow == "api":
                    exp = oracle_values(kc)
                    types = sym_types(kc)
                    KG.write_config(kc, os.path.join(D, "sdkconfig"))
                    KG.write_header(kc, os.path.join(D, "sdkconfig.h"))
                    KG.write_cmake(kc, os.path.join(D, "sdkconfig.cmake"))
                    KG.write_json(kc, os.path.join(D, "sdkconfig.json"))
                    json_direct = KG.get_json_values(kc)
                    kc.sync_deps(os.path.join(D, "deps"))
                else:
                    in_sdk = os.path.join(src, "in.sdkconfig")
                    for p in (in_sdk, in_sdk + ".old"):
                        if os.path.exists(p):
                            os.remove(p)
                    kc.write_config(in_sdk)
                    kc1 = make_kconf(src, text, case["renames"], case["pv"])
                    kc1.load_config(in_sdk, replace=False)
                    exp = oracle_values(kc1)
                    types = sym_types(kc1)
                    args = c07_main_args(src, D, in_sdk, case["renames"],
                                         (("config", "sdkconfig"), ("header", "sdkconfig.h"), ("cmake", "sdkconfig.cmake"),
                                          ("json", "sdkconfig.json"), ("cdep_tree", "deps")))
                    run_main(args, main_env(src, case["renames"], case["pv"]), subproc=(flow == "subproc"))
            except Exception:
                res.bad("exception:c07-%s:%s" % (flow, exc_id()), "no exception while generating the outputs of a well-formed tree",
                        "%s: %s" % (tag, traceback.format_exc()[-900:]))
                break
            texts = {}
            for fmt, fname in files + (("auto.conf", os.path.join("deps", "auto.conf")),):
                b = rd(os.path.join(D, fname))
                texts[fmt] = b.decode("utf-8", "replace") if b is not None else ""
                if b is None:
                    res.bad("output-missing:%s" % fmt, "every output is written", "%s: %s does not exist" % (tag, fname))
            has_alias = c07_compare(res, tag, types, alias, exp, texts, json_direct)
            if has_alias:
                res.nontrivial.add("%s#%d:alias" % (case["origin"], gi))
            if any(v not in ("n", "y") for v in exp.values()):
                res.nontrivial.add("%s#%d:nonbool" % (case["origin"], gi))
            if prev_exp is not None and any(prev_exp.get(n, "n") != "n" and exp.get(n, "n") == "n" for n in prev_exp):
                res.nontrivial.add("%s#%d:shrink" % (case["origin"], gi))
            prev_exp = exp
    return res


# ======================================================================================================
# fault-injection harness: every mutating file-system call below a watched directory is an "operation";
# the process "dies" before the k-th one, or after n bytes of the k-th one (a write) reached the disk.
#   mode "raise": dying = raising a BaseException that no library handler catches; every later operation
#                 (finally clauses!) dies again, so the disk keeps the state of the moment of death
#   mode "fork" : the guarded call runs in a forked child, dying = os._exit(77)
# All data written through builtins.open below the watched directory goes to the disk unbuffered, so the
# on-disk state at the moment of death is exactly what a killed process would leave with a write-through cache.
# ======================================================================================================


@_portable
class Crash(BaseException):
    pass


@_portable
class WFile(object):
    """Stand-in for the file object returned by open(path, 'w'|'a'|'x'[b]) below the watched directory."""

    def __init__(self, h, path, raw, binary, encoding, errors):
        self.h, self.name, self.raw, self.binary = h, path, raw, binary
        self.encoding, self.errors = encoding or "utf-8", errors or "strict"
        self.closed = False
        self.mode = "wb" if binary else "w"

    def write(self, s):
        data = bytes(s) if self.binary else s.encode(self.encoding, self.errors)
        n = self.h.op("write", self.name, data)
        if n is not None:
            self.raw.write(data[:n])
            self.h.die()
        self.raw.write(data)
        return len(s)

    def writelines(self, lines):
        for x in lines:
            self.write(x)

    def flush(self):
        pass

    def fileno(self):
        return self.raw.fileno()

    def close(self):
        if not self.closed:
            self.closed = True
            self.raw.close()

    def __enter__(self):
        return self

    def __exit__(self, *a):
        self.close()
        return False


@_portable
class Harness(object):
    OS_FUNCS = ("mkdir", "rmdir", "replace", "rename", "remove", "unlink", "symlink", "link", "truncate")

    def __init__(self, watch, plan=None, mode="raise", record=None):
        self.watch = os.path.abspath(watch)
        self.plan, self.mode, self.record = plan, mode, record
        self.n = 0
        self.dead = False
        self.saved = []

    def inside(self, path):
        try:
            p = os.path.abspath(os.fspath(path))
        except TypeError:
            return False
        return p == self.watch or p.startswith(self.watch + os.sep)

    def die(self):
        if self.mode == "fork":
            os._exit(77)
        self.dead = True
        raise Crash()

    def op(self, kind, path, data=None):
        """Called before a mutating operation.  Returns None (go on) or the number of bytes to write before dying."""
        if self.dead:
            raise Crash()
        self.n += 1
        if self.record is not None:
            self.record.append((kind, os.path.relpath(os.path.abspath(os.fspath(path)), self.watch), data))
        if self.plan is not None and self.n == self.plan[1]:
            if self.plan[0] == "write" and kind == "write":
                return min(self.plan[2], len(data))
            self.die()
        return None

    def __enter__(self):
        h = self

        def patch(mod, name, new):
            h.saved.append((mod, name, getattr(mod, name)))
            setattr(mod, name, new)

        def wrap_os(name):
            orig = getattr(os, name)

            def f(*a, **kw):
                if a and h.inside(a[0]) or (len(a) > 1 and name in ("replace", "rename", "symlink", "link") and h.inside(a[1])):
                    h.op(name, a[1] if name in ("symlink", "link") else a[0])
                return orig(*a, **kw)
            return f

        for name in self.OS_FUNCS:
            if hasattr(os, name):
                patch(os, name, wrap_os(name))
        orig_os_open = os.open

        def os_open(path, flags, *a, **kw):
            if flags & (os.O_WRONLY | os.O_RDWR | os.O_CREAT | os.O_TRUNC | os.O_APPEND) and h.inside(path):
                h.op("os.open", path)
            return orig_os_open(path, flags, *a, **kw)

        patch(os, "open", os_open)
        orig_open = builtins.open

        def b_open(file, mode="r", buffering=-1, encoding=None, errors=None, newline=None, *a, **kw):
            if isinstance(file, int) or not any(c in mode for c in "wax+") or not h.inside(file):
                return orig_open(file, mode, buffering, encoding, errors, newline, *a, **kw)
            h.op("open:" + mode, file)
            base = mode.replace("b", "").replace("t", "")
            if base not in ("w", "a", "x"):
                return orig_open(file, mode, buffering, encoding, errors, newline, *a, **kw)
            raw = orig_open(file, base + "b", 0)
            return WFile(h, os.fspath(file), raw, "b" in mode, encoding, errors)

        patch(builtins, "open", b_open)
        patch(io, "open", b_open)
        for name in ("_USE_CP_SENDFILE", "_USE_CP_COPY_FILE_RANGE"):
            if hasattr(shutil, name):
                patch(shutil, name, False)
        return self

    def __exit__(self, *a):
        for mod, name, val in reversed(self.saved):
            setattr(mod, name, val)
        self.saved = []
        return False


@_portable
def run_guarded(fn, watch, plan=None, mode="raise", record=None):
    """Runs fn() under the harness.  -> "done" | "crashed" | "error: ..." """
    if mode == "fork":
        sys.stdout.flush()
        sys.stderr.flush()
        pid = os.fork()
        if pid == 0:
            code = 3
            try:
                with Harness(watch, plan, "fork"):
                    fn()
                code = 0
            except BaseException:
                try:
                    wr(os.path.join(os.path.dirname(os.path.abspath(watch)), "child_error.txt"), traceback.format_exc())
                except BaseException:
                    pass
            os._exit(code)
        _, st = os.waitpid(pid, 0)
        code = os.WEXITSTATUS(st) if os.WIFEXITED(st) else -1
        if code == 0:
            return "done"
        if code == 77:
            return "crashed"
        b = rd(os.path.join(os.path.dirname(os.path.abspath(watch)), "child_error.txt"))
        return "error: child exit %d: %s" % (code, (b or b"").decode("utf-8", "replace")[-700:])
    try:
        with Harness(watch, plan, "raise", record):
            fn()
        return "done"
    except Crash:
        return "crashed"
    except Exception:
        return "error: " + traceback.format_exc()[-700:]


@_portable
def plans_of(log, prefixes="few"):
    """All crash points of a recorded run: die before operation k (k = 1..N) and inside every write at byte prefixes."""
    out = []
    for k, (kind, rel, data) in enumerate(log, 1):
        out.append(("op", k, kind + " " + rel))
        if kind != "write" or not data:
            continue
        L = len(data)
        if prefixes == "all":
            cuts = list(range(1, L + 1))
        else:
            cuts = set([1, L // 3, L // 2, L - 1, L])
            nl = [i + 1 for i in range(L) if data[i:i + 1] == b"\n"]
            for b in nl[:3] + nl[-3:]:
                cuts.add(b)
            eq = [i for i in range(L) if data[i:i + 1] == b"="]
            for b in eq[:2] + eq[-2:]:
                cuts.add(b + 2)  # in the middle of a value
                cuts.add(b + 1)
            cont = [i for i in range(L) if 0x80 <= data[i] < 0xC0]
            for b in cont[:2] + cont[-1:]:
                cuts.add(b)  # splits a multi-byte character
            cuts = sorted(c for c in cuts if 0 < c <= L)
        for c in cuts:
            out.append(("write", k, c, "write %s %d/%d bytes" % (rel, c, L)))
    return out


@_portable
def snap_dir(D):
    """None if D does not exist, else {relpath: ("d",) | ("l", target) | ("f", bytes)}."""
    if not os.path.lexists(D):
        return None
    out = {}
    for root, dirs, names in os.walk(D):
        for n in list(dirs) + names:
            p = os.path.join(root, n)
            rel = os.path.relpath(p, D)
            if os.path.islink(p):
                out[rel] = ("l", os.readlink(p))
            elif os.path.isdir(p):
                out[rel] = ("d",)
            else:
                out[rel] = ("f", rd(p))
    return out


@_portable
def restore_dir(D, snap):
    if os.path.lexists(D):
        shutil.rmtree(D)
    if snap is None:
        return
    os.makedirs(D)
    for rel in sorted(snap):
        e = snap[rel]
        p = os.path.join(D, rel)
        if e[0] == "d":
            if not os.path.isdir(p):
                os.makedirs(p)
    for rel in sorted(snap):
        e = snap[rel]
        p = os.path.join(D, rel)
        if e[0] == "f":
            wr(p, e[1])
        elif e[0] == "l":
            if not os.path.isdir(os.path.dirname(p)):
                os.makedirs(os.path.dirname(p))
            os.symlink(e[1], p)


@_portable
def set_sentinels(D):
    """Back-dates every regular file below D to the sentinel mtime."""
    if not os.path.isdir(D):
        return
    for root, dirs, names in os.walk(D):
        for n in names:
            p = os.path.join(root, n)
            if not os.path.islink(p):
                os.utime(p, ns=(SENT, SENT))


@_portable
def stat_dir(D):
    """{relpath: (kind, content, mtime_ns, inode)} of everything below D (directories: kind only)."""
    out = {}
    if not os.path.isdir(D):
        return out
    for root, dirs, names in os.walk(D):
        for n in list(dirs) + names:
            p = os.path.join(root, n)
            rel = os.path.relpath(p, D)
            st = os.lstat(p)
            if os.path.islink(p):
                out[rel] = ("l", os.readlink(p), st.st_mtime_ns, st.st_ino)
            elif os.path.isdir(p):
                out[rel] = ("d",)
            else:
                out[rel] = ("f", rd(p), st.st_mtime_ns, st.st_ino)
    return out


@_portable
def touched_cdeps(D):
    """Relative paths of the .cdep files created or modified since set_sentinels(D)."""
    out = set()
    for rel, e in stat_dir(D).items():
        if e[0] == "f" and rel.endswith(".cdep") and e[2] != SENT:
            out.add(rel.replace(os.sep, "/"))
    return out


# ======================================================================================================
# C12
# ======================================================================================================

C12_CONTRACTS = [
    "Kconfig.sync_deps(path) [completed]: the set of .cdep files touched (mtime_ns / creation, against a sentinel) is EXACTLY "
    "{path(n) | n an option whose build-visible value (Symbol.str_value if config_string != '' and not bool n, else absent) differs "
    "from the driver's record of the last completed sync, incl. options that appeared / disappeared / were removed from the tree} "
    "plus path(a) for every deprecated alias a (independent rename reader) of such an option; path(n) = n.lower().replace('_','/')+'.cdep' "
    "(lost-trigger:* = a member is missing, spurious-touch = something else was touched)",
    "Kconfig.sync_deps [completed]: <path>/auto.conf decodes to exactly the build-visible values of this configuration (record of the sync)",
    "Kconfig.sync_deps [repeated immediately, fresh instance, same configuration]: no .cdep file and not auto.conf is touched",
    "Kconfig.sync_deps [interrupted at the k-th mutating file-system operation, every k, and after every chosen byte prefix of the "
    "auto.conf write; then rerun with the same configuration]: touched-before-death U touched-by-rerun contains every required "
    "trigger, the rerun raises nothing, one more sync touches nothing and auto.conf equals the uninterrupted run's",
    "Kconfig.sync_deps [interrupted as above; the NEXT configuration of the history is synced instead of a rerun]: every option whose "
    "value differs between the last COMPLETED sync and that configuration has been touched since the completed sync",
]


@_portable
def cdep_path(name):
    return name.lower().replace("_", "/") + ".cdep"


@_portable
def bv_map(kconf):
    """Build-visible value of every defined option: None = not in the header (not written / bool n)."""
    out = {}
    for s in kconf.unique_defined_syms:
        v = s.str_value
        out[s.name] = None if (not s.config_string or (s.orig_type == K.BOOL and v == "n")) else v
    return out


@_portable
def changed_names(prev_bv, cur_bv, alias):
    """name -> reason, for every option / alias whose build-visible value differs between the two records."""
    out = {}
    for n in set(prev_bv) | set(cur_bv):
        a, b = prev_bv.get(n), cur_bv.get(n)
        if a == b:
            continue
        if n not in cur_bv:
            out[n] = "option-removed-from-tree"
        elif a is None:
            out[n] = "option-appeared"
        elif b is None:
            out[n] = "option-disappeared"
        else:
            out[n] = "option-value"
    for a, (t, inv) in alias.items():
        if t in out and a not in out:
            out[a] = "alias-of-" + out[t]
    return out


@_portable
def c12_autoconf_record(D, kc):
    b = rd(os.path.join(D, "auto.conf"))
    types = sym_types(kc)
    got = read_autoconf((b or b"").decode("utf-8", "replace"), types)
    got = dict((n, v[0] if len(v) == 1 else v) for n, v in got.items())
    exp = dict((n, canon_text(types[n], v, quoted_strings=False)) for n, v in bv_map(kc).items() if v is not None)
    return got, exp


@_portable
def replay_c12(case):
    """
    case: origin, kconfig, renames, pv, gens [{ops, kconfig?}], crash {steps:[i..], mode, prefixes, then_next}
    One deps directory lives through the whole history; every sync uses a fresh Kconfig instance.
    """
    res = Res()
    scrub_env()
    alias = read_rename(case["renames"])
    crash = case.get("crash") or {}
    with tempfile.TemporaryDirectory(prefix="rtcout") as top:
        src, D, X = os.path.join(top, "src"), os.path.join(top, "deps"), os.path.join(top, "x", "deps")
        os.makedirs(src)
        os.makedirs(os.path.dirname(X))
        gens = case["gens"]

        def fresh(i):
            kc = make_kconf(src, gens[i].get("kconfig") or case["kconfig"], case["renames"], case["pv"])
            apply_ops(kc, gens[i]["ops"])
            return kc

        prev_bv = {}
        for i in range(len(gens)):
            tag = "%s sync %d" % (case["origin"], i)
            try:
                kc = fresh(i)
                cur_bv = bv_map(kc)
            except Exception:
                res.bad("exception:c12-setup:" + exc_id(), "well-formed tree loads", "%s: %s" % (tag, traceback.format_exc()[-600:]))
                break
            reasons = changed_names(prev_bv, cur_bv, alias)
            exp_paths = dict((cdep_path(n), n) for n in reasons)
            before = snap_dir(D)
            set_sentinels(D)
            try:
                kc.sync_deps(D)
            except Exception:
                res.bad("exception:sync_deps:" + exc_id(), "sync_deps raises nothing on a well-formed tree", "%s: %s" % (tag, traceback.format_exc()[-600:]))
                break
            touched = touched_cdeps(D)
            res.evals += 1
            if i > 0 and reasons:
                res.nontrivial.add("%s#%d" % (case["origin"], i))
            for p in sorted(set(exp_paths) - touched):
                n = exp_paths[p]
                o = alias[n][0] if (n in alias and n not in prev_bv and n not in cur_bv) else n
                res.bad("lost-trigger:" + reasons[n], "sync_deps: exact touched set",
                        "%s: %s (%s; %s: %r -> %r since the last completed sync) but %s was not touched; touched: %r" % (
                            tag, n, reasons[n], o, prev_bv.get(o), cur_bv.get(o), p, sorted(touched)))
            for p in sorted(touched - set(exp_paths)):
                res.bad("spurious-touch", "sync_deps: exact touched set", "%s: %s was touched although no option / alias mapped to it changed "
                        "(changed: %r)" % (tag, p, sorted(reasons)))
            got, exp = c12_autoconf_record(D, kc)
            res.evals += 1
            if got != exp:
                res.bad("autoconf-record-stale", "sync_deps: auto.conf records the configuration", "%s: auto.conf records %r, the configuration is %r" % (
                    tag, sorted(set(got.items()) ^ set(exp.items()), key=repr)[:6], "(symmetric difference shown)"))
            ref_autoconf = rd(os.path.join(D, "auto.conf"))
            # immediately repeated sync
            set_sentinels(D)
            try:
                fresh(i).sync_deps(D)
            except Exception:
                res.bad("exception:sync_deps-repeat:" + exc_id(), "sync_deps: repeated sync is idle", "%s: %s" % (tag, traceback.format_exc()[-600:]))
                break
            res.evals += 1
            t2 = touched_cdeps(D)
            ac = os.stat(os.path.join(D, "auto.conf")).st_mtime_ns if os.path.exists(os.path.join(D, "auto.conf")) else None
            if t2:
                res.bad("repeat-touches", "sync_deps: repeated sync is idle", "%s: an immediately repeated sync touched %r" % (tag, sorted(t2)))
            if ac != SENT:
                res.bad("repeat-rewrites-autoconf", "sync_deps: repeated sync is idle", "%s: an immediately repeated sync rewrote auto.conf" % tag)

            if i in (crash.get("steps") or ()):
                c12_crash(res, case, tag, i, fresh, X, before, exp_paths, reasons, ref_autoconf, crash, prev_bv, alias)
            prev_bv = cur_bv
    return res


@_portable
def c12_crash(res, case, tag, i, fresh, X, before, exp_paths, reasons, ref_autoconf, crash, prev_bv, alias):
    mode = crash.get("mode", "raise")
    log = []
    restore_dir(X, before)
    set_sentinels(X)
    kc = fresh(i)
    st = run_guarded(lambda: kc.sync_deps(X), X, None, "raise", log)
    if st != "done":
        res.bad("exception:sync_deps-under-harness", "harness is transparent", "%s: %s" % (tag, st))
        return
    plans = plans_of(log, crash.get("prefixes", "few"))
    nxt = None
    if crash.get("then_next") and i + 1 < len(case["gens"]):
        try:
            nbv = bv_map(fresh(i + 1))
            nreasons = changed_names(prev_bv, nbv, alias)
            nxt = (dict((cdep_path(n), n) for n in nreasons), nreasons)
        except Exception:
            nxt = None
    for plan in plans:
        for variant in ("rerun", "next"):
            if variant == "next" and nxt is None:
                continue
            restore_dir(X, before)
            set_sentinels(X)
            kc = fresh(i)
            st = run_guarded(lambda: kc.sync_deps(X), X, plan, mode)
            if st != "crashed":
                if st != "done":
                    res.bad("exception:sync_deps-crash-run", "harness", "%s plan %r: %s" % (tag, plan, st))
                continue
            res.evals += 1
            if exp_paths and plan[0] == "write":
                res.nontrivial.add("%s#%d:crash" % (case["origin"], i))
            j = i if variant == "rerun" else i + 1
            want, why = (exp_paths, reasons) if variant == "rerun" else nxt
            try:
                fresh(j).sync_deps(X)
            except Exception:
                res.bad("exception:sync_deps-%s-after-crash:%s" % (variant, exc_id()), "sync_deps: interrupted + rerun loses no trigger",
                        "%s: died at [%s]; the %s sync raises: %s" % (tag, plan[-1], variant, traceback.format_exc()[-500:]))
                continue
            touched = touched_cdeps(X)
            lost = sorted(set(want) - touched)
            if lost:
                kinds = sorted(set(why[want[p]] for p in lost))
                res.bad("crash-%s-lost-trigger:%s:%s" % (variant, plan[0], "+".join(kinds)),
                        ("sync_deps: interrupted + rerun loses no trigger" if variant == "rerun" else "sync_deps: interrupted + next configuration loses no trigger"),
                        "%s: died at [%s], then synced %s: never touched since the last completed sync: %r (touched: %r)" % (
                            tag, plan[-1], "again" if variant == "rerun" else "the next configuration",
                            [(p, want[p], why[want[p]]) for p in lost], sorted(touched)))
            if variant != "rerun":
                continue
            set_sentinels(X)
            try:
                fresh(i).sync_deps(X)
            except Exception:
                res.bad("exception:sync_deps-idle-after-crash:" + exc_id(), "sync_deps: interrupted + rerun loses no trigger", "%s plan %r: %s" % (tag, plan, traceback.format_exc()[-500:]))
                continue
            t3 = touched_cdeps(X)
            if t3:
                res.bad("crash-rerun-not-idle", "sync_deps: interrupted + rerun loses no trigger", "%s: died at [%s], reran; one more sync still touches %r" % (tag, plan[-1], sorted(t3)))
            if rd(os.path.join(X, "auto.conf")) != ref_autoconf:
                res.bad("crash-rerun-autoconf-differs", "sync_deps: interrupted + rerun loses no trigger", "%s: died at [%s], reran: auto.conf differs from the uninterrupted run's" % (tag, plan[-1]))


# ======================================================================================================
# C13
# ======================================================================================================

C13_CONTRACTS = [
    "Kconfig.write_config / write_autoconf / write_min_config (plain, labels+normalize_unset) / sync_deps [regenerated by a fresh instance "
    "with the same configuration]: the whole output directory is unchanged: same files, same bytes, same mtime_ns, same inode "
    "(also no new .old, no touched .cdep), incl. non-ASCII values / prompts / headers",
    "kconfgen.core.main (temp file + update_if_changed) for config, header, cmake, json, json_menus, savedefconfig, docs, report, cdep_tree "
    "[second invocation with identical inputs, in process and as python -m kconfgen]: whole output directory unchanged as above",
    "kconfgen.core.update_if_changed(src, dst): afterwards dst has the bytes of src; if it had them before, its mtime_ns and inode are unchanged",
    "every generation into a directory holding the previous (different) generation leaves each output with exactly the bytes a generation "
    "into an empty directory gives (rewritten iff changed)",
    "Kconfig.write_config(dest) [save_old default, dest a regular file or a relative symlink, with and without an existing dest.old; "
    "completed]: dest has the complete new text, dest.old the complete previous text, a symlink stays a symlink",
    "Kconfig.write_config(dest) [killed before the k-th mutating file-system operation, every k, and after every chosen byte prefix of "
    "every write]: dest holds the complete new configuration OR dest.old holds the complete previous one (OR dest still holds the complete "
    "previous one, i.e. the save has not started to replace it)",
]


@_portable
def reset_report():
    inst = getattr(K.KconfigReport, "_instance", None)
    if inst is not None and getattr(inst, "_initialized", False):
        inst.reset()


@_portable
def has_nonascii(b):
    return isinstance(b, bytes) and any(c >= 0x80 for c in b)


@_portable
def c13_generate(case, gi, src, D, subproc=False):
    g = case["gens"][gi]
    text = g.get("kconfig") or case["kconfig"]
    kc = make_kconf(src, text, case["renames"], case["pv"])
    apply_ops(kc, g["ops"])
    if not os.path.isdir(D):
        os.makedirs(D)
    if case["flow"] == "api":
        kc.write_config(os.path.join(D, "sdkconfig"))
        kc.write_config(os.path.join(D, "sdkconfig.dep"), header="# h ☕\n", write_deprecated=True)
        kc.write_autoconf(os.path.join(D, "autoconf.h"), header="/* ž */\n", write_deprecated=True)
        kc.write_min_config(os.path.join(D, "defconfig"))
        kc.write_min_config(os.path.join(D, "defconfig.l"), header="# m\n", labels=True, normalize_unset=True)
        kc.sync_deps(os.path.join(D, "deps"))
        return ["sdkconfig", "sdkconfig.dep", "autoconf.h", "defconfig", "defconfig.l", os.path.join("deps", "auto.conf")]
    in_sdk = os.path.join(src, "in%d.sdkconfig" % gi)
    if not os.path.exists(in_sdk):
        kc.write_config(in_sdk)
    formats = (("config", "sdkconfig"), ("header", "sdkconfig.h"), ("cmake", "sdkconfig.cmake"), ("json", "sdkconfig.json"),
               ("json_menus", "menus.json"), ("savedefconfig", "defconfig"), ("docs", "docs.inc"), ("report", "report.json"),
               ("cdep_tree", "deps"))
    reset_report()
    run_main(c07_main_args(src, D, in_sdk, case["renames"], formats), main_env(src, case["renames"], case["pv"]), subproc=subproc)
    return [f for _, f in formats[:-1]] + [os.path.join("deps", "auto.conf")]


@_portable
def c13_notouch(res, case):
    flow = case["flow"]
    sub = flow == "subproc"
    with tempfile.TemporaryDirectory(prefix="rtcout") as top:
        src, D = os.path.join(top, "src"), os.path.join(top, "out")
        os.makedirs(src)
        for gi in range(len(case["gens"])):
            tag = "%s gen %d (%s)" % (case["origin"], gi, flow)
            try:
                outs = c13_generate(case, gi, src, D, sub)
                F = os.path.join(top, "fresh%d" % gi)
                c13_generate(case, gi, src, F, sub)
            except Exception:
                res.bad("exception:c13-%s:%s" % (flow, exc_id()), "outputs are generated without exception", "%s: %s" % (tag, traceback.format_exc()[-800:]))
                return
            for f in outs:
                a, b = rd(os.path.join(D, f)), rd(os.path.join(F, f))
                res.evals += 1
                if a != b:
                    res.bad("stale-output:%s:%s" % (flow, f), "rewritten iff changed",
                            "%s: %s in the reused directory differs from a generation into an empty directory:\n--- reused\n%s\n--- fresh\n%s" % (
                                tag, f, (a or b"<missing>").decode("utf-8", "replace")[-400:], (b or b"<missing>").decode("utf-8", "replace")[-400:]))
                if gi > 0 and a is not None:
                    res.nontrivial.add("%s#%d:%s:changed" % (case["origin"], gi, f))
            set_sentinels(D)
            s1 = stat_dir(D)
            try:
                c13_generate(case, gi, src, D, sub)
            except Exception:
                res.bad("exception:c13-%s-regen:%s" % (flow, exc_id()), "outputs are generated without exception", "%s: %s" % (tag, traceback.format_exc()[-800:]))
                return
            s2 = stat_dir(D)
            for rel in sorted(set(s1) | set(s2)):
                e1, e2 = s1.get(rel), s2.get(rel)
                res.evals += 1
                if e1 is not None and e1[0] == "f" and has_nonascii(e1[1]):
                    res.nontrivial.add("%s#%d:%s:nonascii" % (case["origin"], gi, rel))
                elif e1 is not None and e1[0] == "f":
                    res.nontrivial.add("%s#%d:%s" % (case["origin"], gi, rel))
                if e1 == e2:
                    continue
                if e1 is None:
                    what = "created"
                elif e2 is None:
                    what = "removed"
                elif e1[:2] != e2[:2]:
                    what = "content"
                elif e1[2] != e2[2]:
                    what = "mtime"
                else:
                    what = "inode"
                name = "deps/*.cdep" if rel.endswith(".cdep") else rel
                res.bad("rewritten-unchanged:%s:%s:%s%s" % (flow, name, what, ":nonascii" if (e1 and has_nonascii(e1[1])) else ""),
                        "regeneration of an unchanged configuration leaves the destination untouched",
                        "%s: %s %s (mtime_ns %r -> %r, inode %r -> %r, same bytes: %r)" % (
                            tag, rel, what, e1 and e1[2:3], e2 and e2[2:3], e1 and e1[3:4], e2 and e2[3:4], bool(e1 and e2 and e1[:2] == e2[:2])))


@_portable
def c13_uic(res, case):
    with tempfile.TemporaryDirectory(prefix="rtcout") as top:
        for k, (dst_text, src_text) in enumerate(case["pairs"]):
            dst, srcp = os.path.join(top, "d%d" % k), os.path.join(top, "s%d" % k)
            wr(srcp, src_text)
            if dst_text is not None:
                wr(dst, dst_text)
                os.utime(dst, ns=(SENT, SENT))
            before = os.stat(dst) if dst_text is not None else None
            res.evals += 1
            try:
                KG.update_if_changed(srcp, dst, "utf-8")
            except Exception:
                res.bad("exception:update_if_changed:" + exc_id(), "update_if_changed", "pair %d %r: %s" % (k, (dst_text, src_text), traceback.format_exc()[-500:]))
                continue
            after = os.stat(dst)
            if rd(dst) != src_text.encode("utf-8"):
                res.bad("update_if_changed:not-updated", "dst has the bytes of src", "pair %d: dst %r, src %r, afterwards %r" % (k, dst_text, src_text, rd(dst)))
            if dst_text == src_text:
                res.nontrivial.add("uic:%d" % k)
                if (before.st_mtime_ns, before.st_ino) != (after.st_mtime_ns, after.st_ino):
                    res.bad("update_if_changed:rewritten-equal%s" % (":nonascii" if has_nonascii(src_text.encode("utf-8")) else ""),
                            "equal contents: destination untouched", "pair %d: contents %r equal, mtime_ns %d -> %d, inode %d -> %d" % (
                                k, src_text, before.st_mtime_ns, after.st_mtime_ns, before.st_ino, after.st_ino))


@_portable
def c13_save(res, case):
    wd = bool(case.get("wd"))
    with tempfile.TemporaryDirectory(prefix="rtcout") as top:
        src, L = os.path.join(top, "src"), os.path.join(top, "work", "L")
        os.makedirs(src)
        os.makedirs(os.path.dirname(L))
        tag = "%s save over %s%s" % (case["origin"], case["dest"], " + existing .old" if case.get("old") else "")
        try:
            both = []
            for gi in (0, 1):
                g = case["gens"][gi]
                kc = make_kconf(src, g.get("kconfig") or case["kconfig"], case["renames"], case["pv"])
                apply_ops(kc, g["ops"])
                p = os.path.join(top, "ref%d" % gi)
                kc.write_config(p, write_deprecated=wd)
                both.append(rd(p))
            PREV, NEW = both
            kcB = kc
        except Exception:
            res.bad("exception:c13-save-setup:" + exc_id(), "write_config", "%s: %s" % (tag, traceback.format_exc()[-600:]))
            return
        if PREV == NEW:
            return
        os.makedirs(L)
        dest = os.path.join(L, "sdkconfig")
        if case["dest"] == "symlink":
            wr(os.path.join(L, "store", "real.sdkconfig"), PREV)
            os.symlink(os.path.join("store", "real.sdkconfig"), dest)
        else:
            wr(dest, PREV)
        if case.get("old"):
            wr(dest + ".old", b"# an older backup\n")
        base = snap_dir(L)

        def save():
            kcB.write_config(dest, write_deprecated=wd)

        log = []
        st = run_guarded(save, L, None, "raise", log)
        res.evals += 1
        if st != "done":
            res.bad("exception:write_config-save", "write_config raises nothing", "%s: %s" % (tag, st))
            return
        d, o = rd(dest), rd(dest + ".old")
        if d != NEW:
            res.bad("save-completed:dest-not-new:%s" % case["dest"], "completed save", "%s: dest has %r..." % (tag, (d or b"")[:80]))
        if o != PREV:
            res.bad("save-completed:old-not-previous:%s" % case["dest"], "completed save: dest.old holds the previous configuration",
                    "%s: dest.old %s" % (tag, "is a symlink to %r" % os.readlink(dest + ".old") if os.path.islink(dest + ".old") else
                                         ("has %r..." % (o or b"<missing>")[:80])))
        if os.path.islink(dest) != (case["dest"] == "symlink"):
            res.bad("save-completed:link-kind-changed:%s" % case["dest"], "completed save", "%s: islink(dest) = %r" % (tag, os.path.islink(dest)))
        for plan in plans_of(log, case.get("prefixes", "few")):
            restore_dir(L, base)
            st = run_guarded(save, L, plan, case.get("mode", "raise"))
            if st != "crashed":
                if st != "done":
                    res.bad("exception:write_config-save-crash-run", "harness", "%s plan %r: %s" % (tag, plan, st))
                continue
            res.evals += 1
            res.nontrivial.add("%s:%s:%s:%r" % (case["origin"], case["dest"], bool(case.get("old")), plan[:3]))
            d, o = rd(dest), rd(dest + ".old")
            if d == NEW or o == PREV or d == PREV:
                continue
            res.bad("save-loses-both-copies:%s:%s" % (case["dest"], plan[0]), "killed save: new complete in dest or previous complete in dest.old",
                    "%s: killed at [%s]: dest has %d bytes (new %d, previous %d), dest.old %s -- neither the new nor the previous "
                    "configuration is complete anywhere" % (tag, plan[-1], len(d or b""), len(NEW), len(PREV),
                                                             "missing" if o is None else "has %d bytes" % len(o)))


@_portable
def replay_c13(case):
    res = Res()
    scrub_env()
    kind = case["kind"]
    if kind == "notouch":
        c13_notouch(res, case)
    elif kind == "uic":
        c13_uic(res, case)
    else:
        c13_save(res, case)
    return res


# ======================================================================================================
# scope: hand-written worlds + rtc.gen corpus with driver-made rename files and histories
# ======================================================================================================

NONASCII = 'čaj ☕ "q" \\ 日本'

W_ALIAS = '''mainmenu "T"

config BA
    bool "ba"
    default y

config BB
    bool "bb"

config IA
    int "ia"
    default 20

config IB
    int "ib"
    default 10

config SA
    string "sa"
    default "hello"

config HA
    hex "ha"
    default 0x40

config FA
    float "fa"
    default 1.50
'''
W_ALIAS_R0 = '''# component A
CONFIG_INV_FIRST !CONFIG_BA
CONFIG_PLAIN_AFTER CONFIG_BA
CONFIG_PLAIN2 CONFIG_BA
CONFIG_INV_LAST !CONFIG_BA
CONFIG_INV_BB !CONFIG_BB
CONFIG_PL_BB CONFIG_BB
CONFIG_OLD_IA CONFIG_IA
CONFIG_OLD_IA CONFIG_IA
CONFIG_MOVED CONFIG_BA
CONFIG_MOVED_INT CONFIG_IA
CONFIG_MOVED_INT CONFIG_IB
CONFIG_OLD_SA CONFIG_SA
CONFIG_OLD_HA CONFIG_HA
CONFIG_OLD_FA CONFIG_FA
CONFIG_FLIP !CONFIG_BA
CONFIG_FLIP CONFIG_BA
CONFIG_FLOP CONFIG_BB
CONFIG_FLOP !CONFIG_BB
'''
W_ALIAS_R1 = '''# component B
CONFIG_MOVED CONFIG_BB
CONFIG_XFILE_INV !CONFIG_BB
CONFIG_OLD_SA CONFIG_SA
CONFIG_MOVED_STR CONFIG_SA
'''
W_ALIAS_R1B = '''# component C: re-targets names of component A to options of another type / value
CONFIG_MOVED_INT CONFIG_IA
CONFIG_PLAIN2 CONFIG_BB
CONFIG_INV_LAST CONFIG_BB
'''

W_TRAIL = '''mainmenu "T"

config APP_NAME
    string "name"
    default "demo"

config UART_BAUD
    int "baud"
    default 115200

menu "Tracing"

config TRACE_ENABLE
    bool "trace"
    default y

config TRACE_DEPTH
    int "depth"
    depends on TRACE_ENABLE
    default 8

endmenu
'''
W_TRAIL_R = '''CONFIG_OLD_TRACE CONFIG_TRACE_ENABLE
CONFIG_NO_TRACE !CONFIG_TRACE_ENABLE
CONFIG_OLD_DEPTH CONFIG_TRACE_DEPTH
CONFIG_OLD_BAUD CONFIG_UART_BAUD
'''

W_FLAT = '''mainmenu "T"

config ALPHA
    bool "alpha"
    default y

config SPEED
    int "speed"
    default 12

config MID
    bool "mid"
    default y

config ZETA
    bool "zeta"
    default y
'''
W_FLAT_R = '''CONFIG_OLD_ZETA CONFIG_ZETA
CONFIG_NOT_ZETA !CONFIG_ZETA
CONFIG_OLD_SPEED CONFIG_SPEED
CONFIG_LEGACY_SPEED CONFIG_SPEED
'''
W_FLAT_NOZETA = W_FLAT[:W_FLAT.index("config ZETA")].rstrip("\n") + "\n"
W_FLAT_REFZETA = W_FLAT_NOZETA + '\nconfig USER\n    bool "user"\n    default y if !ZETA\n'

W_BOOLS = '''mainmenu "T"

config P
    bool "p"
    default y

config Q
    bool "q"
    default y
'''
W_BOOLS_R = "CONFIG_OLD_P CONFIG_P\nCONFIG_NOT_Q !CONFIG_Q\n"

W_UTF8 = '''mainmenu "T ž"

menu "Nabídka ☕"

config S
    string "řetězec 日本"
    default "čaj ☕"
    help
        Nápověda ž.

config N
    int "n"
    default 12

endmenu

comment "poznámka ü"

config B
    bool "b ö"
    default y

config T
    string "t"
    default "žluť"

config LAST
    bool "last"
    default y
'''
W_UTF8_R = "CONFIG_OLD_S CONFIG_S\nCONFIG_OLD_T CONFIG_T\nCONFIG_NOT_LAST !CONFIG_LAST\nCONFIG_OLD_N CONFIG_N\n"

W_EMPTY = '''mainmenu "T"

config H
    hex "h"

config I
    int "i"

config F
    float "f"

config S
    string "s"

config B
    bool "b"
'''
W_EMPTY_R = "CONFIG_OLD_H CONFIG_H\nCONFIG_OLD_I CONFIG_I\nCONFIG_OLD_S CONFIG_S\nCONFIG_NOT_B !CONFIG_B\nCONFIG_OLD_B CONFIG_B\n"


def _S(name, v):
    return ["set", name, v]


def hand_worlds():
    """[(origin, kconfig, renames, [gens...])]; each gens is a history of {'ops': [...], 'kconfig'?: text}."""
    g = lambda *ops, **kw: dict(ops=list(ops), **kw)  # noqa: E731
    out = []
    alias_cfgs = [g(), g(_S("BA", "n")), g(_S("BB", "y")), g(_S("BA", "n"), _S("BB", "y"), _S("IA", "7"), _S("IB", "8")),
                  g(_S("SA", NONASCII), _S("HA", "ff"), _S("FA", "1e3")), g(_S("IA", "10"), _S("IB", "20"))]
    out.append(("hand:alias2files", W_ALIAS, [W_ALIAS_R0, W_ALIAS_R1], alias_cfgs))
    out.append(("hand:alias1file", W_ALIAS, [W_ALIAS_R0], alias_cfgs[:4]))
    out.append(("hand:alias3files", W_ALIAS, [W_ALIAS_R0, W_ALIAS_R1, W_ALIAS_R1B], alias_cfgs[:4]))
    out.append(("hand:trailing-menu", W_TRAIL, [W_TRAIL_R], [g(), g(_S("TRACE_ENABLE", "n")), g(), g(_S("TRACE_DEPTH", "9")),
                                                            g(_S("TRACE_ENABLE", "n"), _S("UART_BAUD", "9600"))]))
    out.append(("hand:trailing-flat", W_FLAT, [W_FLAT_R], [g(), g(_S("ZETA", "n")), g(_S("ZETA", "y")), g(_S("SPEED", "1")),
                                                          g(_S("SPEED", "1"), _S("ZETA", "n"), _S("MID", "n")), g(_S("SPEED", "12"))]))
    out.append(("hand:tree-versions", W_FLAT, [W_FLAT_R], [g(), g(kconfig=W_FLAT_NOZETA), g(), g(kconfig=W_FLAT_NOZETA),
                                                          g(_S("SPEED", "3"), kconfig=W_FLAT_NOZETA), g(_S("SPEED", "3"))]))
    out.append(("hand:removed-but-referenced", W_FLAT, [], [g(), g(kconfig=W_FLAT_REFZETA), g()]))
    out.append(("hand:all-off", W_BOOLS, [W_BOOLS_R], [g(), g(_S("P", "n"), _S("Q", "n")), g(), g(_S("Q", "n")), g(_S("P", "n"), _S("Q", "n"))]))
    out.append(("hand:utf8", W_UTF8, [W_UTF8_R], [g(), g(_S("LAST", "n")), g(_S("S", "日本語 ž"), _S("LAST", "n")), g(_S("T", "x")),
                                                  g(_S("N", "1"), _S("T", "x"))]))
    out.append(("hand:no-values", W_EMPTY, [W_EMPTY_R], [g(), g(_S("B", "y"), _S("H", "0x1f"), _S("I", "3")), g(_S("S", "é"))]))
    return out


def gen_renames(rng, spec):
    """
    Driver-made rename files for a generated tree: 1..3 replacements with 1..3 aliases each (bool: each alias inverted
    with p=1/2, so inverted-before-plain occurs), with p=1/2 one old name listed again (exact repetition / same
    replacement with the other inversion / another replacement), in the same or in a second file; the last-defined
    option gets aliases with p=0.6.  The tree's own rename lines (rtc.gen) come first.
    """
    syms = spec.syms
    lines = [(o, n, inv) for o, n, inv in spec.renames]
    targets = rng.sample(syms, min(len(syms), rng.randint(1, 3)))
    if rng.random() < 0.6 and syms[-1] not in targets:
        targets.append(syms[-1])
    k = 0
    for t in targets:
        for _ in range(rng.randint(1, 3)):
            inv = t["type"] == "bool" and rng.random() < 0.5
            lines.append(("%s%d_%s" % ("OI" if inv else "OP", k, t["name"]), t["name"], inv))
            k += 1
    second = []
    if rng.random() < 0.5:
        old, new, inv = rng.choice(lines)
        typ = spec.sym(new)["type"]
        how = rng.choice(("exact", "flip", "retarget", "retarget"))
        if how == "flip" and typ != "bool":
            how = "retarget"
        if how == "exact":
            extra = (old, new, inv)
        elif how == "flip":
            extra = (old, new, not inv)
        else:
            others = [s for s in syms if s["name"] != new]
            if others:
                o = rng.choice(others)
                extra = (old, o["name"], o["type"] == "bool" and rng.random() < 0.5)
            else:
                extra = (old, new, inv)
        (second if rng.random() < 0.5 else lines).append(extra)
    if not second and len(lines) > 2 and rng.random() < 0.3:
        cut = rng.randint(1, len(lines) - 1)
        lines, second = lines[:cut], lines[cut:]
    fmt = lambda ls: "# generated\n" + "".join("CONFIG_%s   %sCONFIG_%s\n" % (o, "!" if i else "", n) for o, n, i in ls)  # noqa: E731
    return [fmt(lines)] + ([fmt(second)] if second else [])


def corpus_worlds(seed, count, n_syms=6):
    """[(origin, kconfig, renames, gens, pv)] for rtc.gen.corpus(seed, count): three histories per tree are merged into one list of gens."""
    out = []
    specs = gen.corpus(seed, count, n_syms)
    with tempfile.TemporaryDirectory(prefix="rtcout") as d:
        for idx, spec in enumerate(specs):
            rng = random.Random(seed * 7919 + idx * 31 + 5)
            renames = gen_renames(rng, spec) if (spec.renames or rng.random() < 0.7) else []
            kconf = spec.load(d, parser_version=1)
            ops = [list(o) for o in gen.gen_ops(rng, kconf, spec, 4)]
            names = [s["name"] for s in spec.syms]
            strs = [s["name"] for s in spec.syms if s["type"] == "string"]
            last_bools = [s["name"] for s in spec.syms if s["type"] == "bool"][-2:]
            base = ops[:2]
            if strs and rng.random() < 0.4:
                base = base + [["set", rng.choice(strs), NONASCII]]
            on = [["set", n, "y"] for n in last_bools]
            off = [["set", n, "n"] for n in last_bools[-1:]]
            gens = [dict(ops=base + on), dict(ops=base + on + off), dict(ops=base + on), dict(ops=base + on + ops[2:]),
                    dict(ops=base + [["set", n, "n"] for n in names if spec.sym(n)["type"] == "bool"])]
            extra = '\nconfig ZZ9\n    bool "zz9"\n    default y\n\nconfig ZY8\n    int "zy8"\n    default 7 if ZZ9\n'
            if renames:
                renames = renames[:-1] + [renames[-1] + "CONFIG_OLD_ZZ9 CONFIG_ZZ9\nCONFIG_NOT_ZZ9 !CONFIG_ZZ9\nCONFIG_OLD_ZY8 CONFIG_ZY8\n"]
            gens += [dict(ops=base, kconfig=spec.text + extra), dict(ops=base), dict(ops=base + [["set", "ZZ9", "n"]], kconfig=spec.text + extra)]
            out.append((spec.origin, spec.text, renames, gens, 1 + idx % 2))
    return out


UIC_PAIRS = [("abc\n", "abc\n"), ("čaj ☕\n", "čaj ☕\n"), ("", ""), ("x=1\n", "x=2\n"), (None, "new ž\n"), ("ab\n", "ab\ncd\n"),
             ("ab\ncd\n", "ab\n"), ("ab\ncd\n", ""), ('#define S "日本"\n#define T 1\n', '#define S "日本"\n#define T 1\n'), ("é", "e")]


def build_cases(prop, tier, seed):
    quick = tier == "quick"
    hand = hand_worlds()
    cw = corpus_worlds(seed, 120 if quick else 1500)
    cases = []
    if prop == "C07":
        for origin, text, renames, gens in hand:
            for pv in (1, 2):
                cases.append(dict(origin="%s:p%d" % (origin, pv), kconfig=text, renames=renames, pv=pv, flow="api", gens=gens))
                cases.append(dict(origin="%s:p%d" % (origin, pv), kconfig=text, renames=renames, pv=pv, flow="main", gens=gens))
        for origin, text, renames, gens in hand[:4] if quick else hand:
            cases.append(dict(origin=origin, kconfig=text, renames=renames, pv=1, flow="subproc", gens=gens[:2]))
        for i, (origin, text, renames, gens, pv) in enumerate(cw):
            cases.append(dict(origin=origin, kconfig=text, renames=renames, pv=pv, flow="api", gens=gens))
            if i % 3 == 0 or not quick:
                cases.append(dict(origin=origin, kconfig=text, renames=renames, pv=pv, flow="main", gens=gens[:3] + gens[-3:]))
    elif prop == "C12":
        for origin, text, renames, gens in hand:
            steps = list(range(len(gens)))
            cases.append(dict(origin=origin, kconfig=text, renames=renames, pv=1, gens=gens,
                              crash=dict(steps=steps, mode="raise", prefixes="few" if quick else "all", then_next=True)))
            cases.append(dict(origin=origin + ":fork", kconfig=text, renames=renames, pv=2, gens=gens[:3],
                              crash=dict(steps=[1] if quick else [0, 1, 2], mode="fork", prefixes="few", then_next=False)))
        for i, (origin, text, renames, gens, pv) in enumerate(cw):
            steps = [1, 3] if quick else list(range(len(gens)))
            cases.append(dict(origin=origin, kconfig=text, renames=renames, pv=pv, gens=gens,
                              crash=dict(steps=steps, mode="raise", prefixes="few", then_next=not quick)))
    else:
        cases.append(dict(kind="uic", origin="update_if_changed:table", pairs=UIC_PAIRS))
        for origin, text, renames, gens in hand:
            for flow in ("api", "main"):
                cases.append(dict(kind="notouch", origin=origin, kconfig=text, renames=renames, pv=1, flow=flow, gens=gens))
            cases.append(dict(kind="notouch", origin=origin + ":p2", kconfig=text, renames=renames, pv=2, flow="main", gens=gens[:2]))
            for dest in ("regular", "symlink"):
                for old in (False, True):
                    for a, b in ((0, 1), (1, 2)):
                        if b >= len(gens):
                            continue
                        cases.append(dict(kind="save", origin="%s:%d>%d" % (origin, a, b), kconfig=text, renames=renames, pv=1,
                                          gens=[gens[a], gens[b]], dest=dest, old=old, wd=bool(old), mode="raise",
                                          prefixes="few" if quick else "all"))
            cases.append(dict(kind="save", origin=origin + ":fork", kconfig=text, renames=renames, pv=1, gens=gens[:2], dest="symlink",
                              old=False, wd=True, mode="fork", prefixes="few"))
            if not quick:
                cases.append(dict(kind="save", origin=origin + ":fork", kconfig=text, renames=renames, pv=1, gens=gens[:2], dest="regular",
                                  old=True, wd=True, mode="fork", prefixes="few"))
        for origin, text, renames, gens in (hand[8:9] + hand[0:1]) if quick else hand:
            cases.append(dict(kind="notouch", origin=origin, kconfig=text, renames=renames, pv=1, flow="subproc", gens=gens[:1]))
        for i, (origin, text, renames, gens, pv) in enumerate(cw):
            cases.append(dict(kind="notouch", origin=origin, kconfig=text, renames=renames, pv=pv, flow="api", gens=gens[:2] + gens[3:6]))
            if i % 2 == 0 or not quick:
                cases.append(dict(kind="notouch", origin=origin, kconfig=text, renames=renames, pv=pv, flow="main", gens=gens[:2] + gens[3:4]))
            cases.append(dict(kind="save", origin=origin, kconfig=text, renames=renames, pv=pv, gens=[gens[0], gens[3]],
                              dest=("regular", "symlink")[i % 2], old=bool(i % 3 == 0), wd=bool(i % 4 < 2), mode="raise", prefixes="few"))
            if not quick:
                cases.append(dict(kind="save", origin=origin, kconfig=text, renames=renames, pv=pv, gens=[gens[0], gens[1]],
                                  dest=("symlink", "regular")[i % 2], old=bool(i % 3 == 1), wd=True, mode="raise", prefixes="few"))
    return cases


# ======================================================================================================
# running, scripts, result
# ======================================================================================================

REPLAY = {"C07": replay_c07, "C12": replay_c12, "C13": replay_c13}


def make_script(prop, case, case_class):
    src = "".join(inspect.getsource(f) + "\n\n" for f in _PORTABLE)
    return (_SCRIPT_HEADER + "\n" + src + "CASE = json.loads(%r)\nWANT = %r\n" % (json.dumps(case), case_class)
            + "res = replay_%s(CASE)\n" % prop.lower()
            + "hits = [v for v in res.violations if v[0] == WANT]\n"
              "for v in hits[:3]:\n    print(v[0], '|', v[2])\n"
              "print('violation %s' % ('SHOWS' if hits else 'does not show'))\n"
              "sys.exit(1 if hits else 0)\n")


def _work(arg):
    prop, idx, case = arg
    try:
        res = REPLAY[prop](case)
        return (idx, res.evals, sorted(res.nontrivial), res.violations, None)
    except BaseException:
        return (idx, 0, [], [], traceback.format_exc()[-1500:])


def describe(case):
    d = dict((k, case[k]) for k in ("origin", "kind", "flow", "pv", "dest", "old", "mode") if k in case)
    if "gens" in case:
        d["generations"] = len(case["gens"])
        d["ops_of_last"] = case["gens"][-1]["ops"][:4]
    if case.get("renames"):
        d["rename_files"] = len(case["renames"])
    return d


BOUNDS = {
    "C07": "10 hand-written trees (aliases: inverted before plain, 3-4 aliases per bool, names listed twice / with the other inversion / "
           "re-targeted in the same and in a 2nd/3rd rename file, aliases of int/hex/string/float; trailing menu whose options turn off; all "
           "options off; UTF-8; options without value) x 3-6 configurations x parser 1,2 x {writer functions, kconfgen.core.main in process}, "
           "%(sub)d trees through 'python -m kconfgen'; rtc.gen.corpus(seed, %(count)d) (= small_trees(2) + %(count)d random trees <= 6 options, "
           "default grammar) with driver-made rename files (gen_renames) and 8 generations each into ONE output directory (history: last bools "
           "y -> n -> y, 2 random ops, all bools n, tree + 2 trailing options / - / +), writer functions for all, main for every %(every)s tree",
    "C12": "the same 10 hand-written trees with their 3-6 step histories (y -> n -> y on the last option, trailing option + dependent, all "
           "off, tree versions removing / re-adding the aliased last option, UTF-8 values) and rtc.gen.corpus(seed, %(count)d) with 8-step "
           "histories, one deps directory per history, fresh instance per sync; crash points: every mutating FS operation (os.mkdir, os.open "
           "O_CREAT|O_TRUNC, builtins.open 'w', write) and %(pref)s byte prefixes of the auto.conf write, in every step of the hand histories "
           "(+ next-configuration variant) and in steps %(steps)s of the corpus histories; in-process death for all, forked child + os._exit for "
           "the first 3 steps of every hand history",
    "C13": "update_if_changed on 10 (dst, src) pairs; 10 hand-written trees x histories and rtc.gen.corpus(seed, %(count)d) x 5 generations: "
           "6 library outputs (write_config x2, write_autoconf, write_min_config x2, sync_deps) and 9 kconfgen formats through kconfgen.core.main "
           "(in process; %(sub)d trees as a subprocess), each generation regenerated once by a fresh instance and compared with a generation into "
           "an empty directory; saves: previous -> next configuration over {regular file, relative symlink} x {no .old, existing .old} x "
           "write_deprecated, killed before every mutating FS operation (os.replace, shutil.copyfile's open/write, os.symlink, open 'w', write) "
           "and at %(pref)s byte prefixes of every write; in-process death for all, forked child + os._exit for one save per hand tree",
}


def run(prop, tier="quick", seed=0, jobs=16):
    t0 = time.time()
    out = {"name": NAME, "property": prop, "kind": "bounded", "status": "ok", "bound": "", "rule": "", "contracts": [], "evaluations": 0,
           "distinct_nontrivial": 0, "samples": [], "violations": [], "seconds": 0.0}
    try:
        if prop not in PROPERTIES:
            raise ValueError("unknown property %r" % (prop,))
        quick = tier == "quick"
        gen.scrub_env()
        scrub_env()
        gen.silence_library_log()
        cases = build_cases(prop, tier, seed)
        work = [(prop, i, c) for i, c in enumerate(cases)]
        if jobs and jobs > 1:
            with multiprocessing.get_context("fork").Pool(jobs) as pool:
                results = pool.map(_work, work, chunksize=max(1, len(work) // (jobs * 8)))
        else:
            results = [_work(w) for w in work]
        nontrivial = set()
        by_class = {}
        errors = []
        for idx, evals, keys, vios, err in results:
            out["evaluations"] += evals
            nontrivial.update(keys)
            if err:
                errors.append("case %d (%s): %s" % (idx, cases[idx].get("origin"), err))
            for cc, contract, detail in vios:
                e = by_class.setdefault(cc, {"case_class": cc, "contract": contract, "detail": detail, "count": 0, "_case": idx})
                e["count"] += 1
        if errors:
            out["status"] = "checker_error"
            out["reason"] = "; ".join(errors[:3])
        for cc in sorted(by_class):
            e = by_class[cc]
            case = cases[e.pop("_case")]
            e["detail"] = e["detail"][:1500]
            e["script"] = MINIMAL_SCRIPTS.get(cc) or make_script(prop, case, cc)
            out["violations"].append(e)
        out["distinct_nontrivial"] = len(nontrivial)
        out["samples"] = [describe(c) for c in (cases[:2] + cases[len(cases) // 2:len(cases) // 2 + 2] + cases[-1:])]
        fill = dict(count=120 if quick else 1500, sub=4 if quick else 10, every="3rd" if quick else "", pref="~15 chosen" if quick else "all",
                    steps="1 and 3" if quick else "0..7")
        if prop == "C13":
            fill["sub"] = 2 if quick else 10
        out["bound"] = BOUNDS[prop] % fill + "; %d cases in total" % len(cases)
        out["rule"] = ("hand-written part and small_trees(2) are fixed and exhaustive over the listed shapes; the seed only selects the random trees "
                       "(gen_tree(Random(seed*1000003+i))) and, through Random(seed*7919+31*i+5), their rename files and op histories; crash points are "
                       "enumerated exhaustively per recorded run (every operation; byte prefixes: %s)" % fill["pref"])
        out["contracts"] = {"C07": C07_CONTRACTS, "C12": C12_CONTRACTS, "C13": C13_CONTRACTS}[prop]
    except Exception:
        out["status"] = "checker_error"
        out["reason"] = traceback.format_exc()[-2000:]
    out["seconds"] = round(time.time() - t0, 2)
    return out


MINIMAL_SCRIPTS = {}


def main(argv=None):
    argv = list(sys.argv[1:] if argv is None else argv)
    prop = argv[0] if argv else "C07"
    tier = argv[1] if len(argv) > 1 else "quick"
    seed = int(argv[2]) if len(argv) > 2 else 0
    jobs = int(argv[3]) if len(argv) > 3 else 16
    # the library (and click) may print: keep the real stdout for the JSON result only
    sys.stdout.flush()
    real = os.dup(1)
    devnull = os.open(os.devnull, os.O_WRONLY)
    os.dup2(devnull, 1)
    try:
        result = run(prop, tier, seed, jobs)
    finally:
        sys.stdout.flush()
        os.dup2(real, 1)
    with os.fdopen(real, "w", closefd=False) as f:
        f.write(json.dumps(result, indent=1, ensure_ascii=False) + "\n")
    return 0 if result["status"] == "ok" else 2


if __name__ == "__main__":
    sys.exit(main())
