"""
rtc.drv_server -- run-time contracts on the request loop of kconfserver.core.run_server (properties C14, C15).

The REAL run_server() of the tree named by $PYVC_REPO (default /repo) is executed in-process (forked pool workers;
sys.stdin / sys.stdout / sys.stderr replaced by io objects, file descriptors 0-2 of the worker pointed at /dev/null)
and, for a few sessions, as the real process `python -m kconfserver` (stdout purity at file-descriptor level and
fidelity of the in-process harness).

C14  contract on the request loop: a model client that starts from the initial message and applies the
     values / ranges / visible / defaults differences of every reply holds, at every checkpoint (a `save` request),
     exactly the state a NEWLY STARTED server (same protocol version) reports for the saved file.  The oracle is the
     property statement itself ("fresh server on the saved file"); nothing of the library is re-implemented.
C15  contract on the request loop for offending input: one JSON object line per request line, the offending part is
     mentioned in the reply's error list (value-level problems may instead be ignored, as documented), and the
     configuration afterwards (model client state, every file in the working directory incl. the one written by a
     final `save: null`) equals that of a TWIN server which received the same session without the offending part.

`python -m rtc.drv_server <C14|C15> [quick|thorough] [seed]` prints the result dict as JSON.
"""

import os
import sys

REPO = os.environ.get("PYVC_REPO", "/repo")
if not sys.path or sys.path[0] != REPO:
    sys.path.insert(0, REPO)

# The project is imported BEFORE rtc.gen: rtc.gen puts "/repo" in front of sys.path when it is not there yet, which
# would shadow a PYVC_REPO worktree.
import esp_kconfiglib.core as _KCORE  # noqa: E402,F401
import kconfgen.core as _KGEN  # noqa: E402,F401
import kconfserver.core as SRV  # noqa: E402

import inspect  # noqa: E402
import io  # noqa: E402
import json  # noqa: E402
import multiprocessing  # noqa: E402
import random  # noqa: E402
import re  # noqa: E402
import shutil  # noqa: E402
import subprocess  # noqa: E402
import tempfile  # noqa: E402
import time  # noqa: E402
import traceback  # noqa: E402
import zlib  # noqa: E402

from rtc import gen  # noqa: E402

NAME = "drv_server"
PROPERTIES = ["C14", "C15"]

CHANNELS = ("values", "ranges", "visible", "defaults")


# =====================================================================================================================
# Shared harness.  Everything between the two SHARED markers is copied verbatim (inspect.getsource) into the replay
# scripts of violations, so these functions only use the stdlib, SRV (= kconfserver.core) and CHANNELS.
# =====================================================================================================================


def serve(kconfig, sdkconfig, version, lines, rename=None):
    """Run the real run_server() on the given request lines. Returns (everything written to sys.stdout, exception
    text or None).  An exception that leaves run_server() is what kills the real process."""
    saved = (sys.stdin, sys.stdout, sys.stderr)
    out = io.StringIO()
    sys.stdin = io.StringIO("".join(line + "\n" for line in lines))
    sys.stdout = out
    sys.stderr = io.StringIO()
    exc = None
    try:
        SRV.run_server(kconfig, sdkconfig, rename, version)
    except KeyboardInterrupt:
        raise
    except BaseException as e:  # noqa: BLE001 - SystemExit (log.die) ends the server just the same
        where = ""
        tb = e.__traceback__
        while tb is not None:
            where = "%s:%d in %s" % (os.path.basename(tb.tb_frame.f_code.co_filename), tb.tb_lineno, tb.tb_frame.f_code.co_name)
            tb = tb.tb_next
        exc = "%s: %s (%s)" % (type(e).__name__, e, where)
    finally:
        sys.stdin, sys.stdout, sys.stderr = saved
    return out.getvalue(), exc


def split_replies(text):
    """stdout text -> (list with one entry per line: the parsed JSON object, or None if the line is not a JSON
    object; True if the text ends with a newline or is empty)."""
    if not text:
        return [], True
    parts = text.split("\n")
    complete = parts[-1] == ""
    if complete:
        parts.pop()
    objs = []

    def not_json(name):
        raise ValueError("%s is not JSON" % name)

    for p in parts:
        try:
            o = json.loads(p, parse_constant=not_json)
        except ValueError:
            o = None
        objs.append(o if isinstance(o, dict) else None)
    return objs, complete


def client_new(initial):
    return dict((ch, dict(initial.get(ch) or {})) for ch in CHANNELS if isinstance(initial.get(ch), dict))


def client_apply(state, reply):
    """The model client: merge the differences of one reply into the state (exactly what the protocol describes)."""
    for ch in CHANNELS:
        part = reply.get(ch)
        if isinstance(part, dict):
            state.setdefault(ch, {}).update(part)


def materialize(workdir, case):
    """(Re)create workdir with Kconfig, rename file, initial sdkconfig and the extra files / directories of the case."""
    if os.path.isdir(workdir):
        shutil.rmtree(workdir)
    os.makedirs(workdir)
    with open(os.path.join(workdir, "Kconfig"), "w", encoding="utf-8", newline="\n") as f:
        f.write(case["text"])
    if case.get("rename"):
        with open(os.path.join(workdir, "sdkconfig.rename"), "w", encoding="utf-8", newline="\n") as f:
            f.write(case["rename"])
    with open(os.path.join(workdir, "sdkconfig"), "w", encoding="utf-8", newline="\n") as f:
        f.write(case.get("sdk0", ""))
    for d in case.get("dirs", []):
        os.makedirs(os.path.join(workdir, d))
    for name, content in sorted(case.get("files", {}).items()):
        with open(os.path.join(workdir, name), "wb") as f:
            f.write(content.encode("latin-1"))  # file contents are carried as latin-1 text = raw bytes


def snapshot_dir(workdir):
    """{relative path: raw bytes as latin-1 text} of every file below workdir (Kconfig and rename file excluded);
    directories appear as 'path/' -> None."""
    snap = {}
    for root, dirs, files in os.walk(workdir):
        rel = os.path.relpath(root, workdir)
        for d in dirs:
            snap[os.path.normpath(os.path.join(rel, d)) + "/"] = None
        for fn in files:
            p = os.path.normpath(os.path.join(rel, fn))
            if p in ("Kconfig", "sdkconfig.rename"):
                continue
            with open(os.path.join(root, fn), "rb") as f:
                snap[p] = f.read().decode("latin-1")
    return snap


def session(workdir, case, lines):
    """One server life: fresh workdir, cwd = workdir (so menu ids and relative paths are stable), all lines fed at
    once.  Returns (stdout text, exception text or None, directory snapshot afterwards)."""
    materialize(workdir, case)
    cwd = os.getcwd()
    os.environ["KCONFIG_PARSER_VERSION"] = str(case.get("parser", 1))
    os.chdir(workdir)
    try:
        out, exc = serve("Kconfig", "sdkconfig", case["version"], lines, "sdkconfig.rename" if case.get("rename") else None)
        snap = snapshot_dir(".")
    finally:
        os.chdir(cwd)
    return out, exc, snap


def fresh_initial(workdir, case, path, version, memo=None):
    """Initial message of a NEWLY STARTED server (protocol `version`) on the configuration file `path` (relative to
    workdir).  Returns (message dict or None, problem text or None)."""
    with open(os.path.join(workdir, path), "rb") as f:
        key = (version, f.read())
    if memo is not None and key in memo:
        return memo[key]
    cwd = os.getcwd()
    os.chdir(workdir)
    try:
        out, exc = serve("Kconfig", path, version, [], "sdkconfig.rename" if case.get("rename") else None)
    finally:
        os.chdir(cwd)
    objs, complete = split_replies(out)
    if exc is not None or len(objs) != 1 or objs[0] is None or not complete:
        res = (None, "fresh server on %s failed: %s / stdout %r" % (path, exc, out[:200]))
    else:
        res = (objs[0], None)
    if memo is not None:
        memo[key] = res
    return res


def compare_states(state, fresh, version, fresh_v2=None, sorts=None, rejected=(), assigned=None):
    """C14 postcondition.  `state`: model client state; `fresh`: initial message of a newly started server of the
    same protocol version on the saved file; for version 1 `fresh_v2` (initial message of a version-2 server on the
    same file) supplies the visibility that version 1 cannot express.  `sorts` (option name -> type or
    'choice-member') and `rejected` (options whose most recent set request did not produce the requested value, e.g.
    out of range or invisible at that time) only refine the class ids: <channel>:<what>:<sort>[:unwritten-option |
    :after-rejected-assignment | :user-value-outside-moved-range], 'unwritten-option' = the option has no value in the
    fresh state; 'user-value-outside-moved-range' = the option's latest assignment (`assigned`: name -> number) took
    effect when it was made and lies outside the range the fresh server reports now (a later request moved the active
    range away from the user value).  Returns (class, text)s."""
    found = []
    sorts = sorts or {}
    assigned = assigned or {}

    def outside(v, bounds):
        return (isinstance(v, (int, float)) and not isinstance(v, bool) and isinstance(bounds, (list, tuple)) and len(bounds) == 2
                and not bounds[0] <= v <= bounds[1])

    class _P(object):
        def append(self, item):
            key = item[1].split("[", 1)[1].split("]", 1)[0]
            cls = item[0] + ":" + sorts.get(key, "menu-or-choice")
            if "values:" in item[0] or "defaults:" in item[0]:
                if key in sorts and key not in fresh.get("values", {}):
                    cls += ":unwritten-option"
                elif key in rejected:
                    cls += ":after-rejected-assignment"
                elif outside(assigned.get(key), fresh.get("ranges", {}).get(key)):
                    cls += ":user-value-outside-moved-range"
                elif sorts.get(key) in ("int", "hex", "float") and key in fresh.get("values", {}) and fresh["values"][key] is None:
                    # the option has no value at all (JSON null): it is saved as `CONFIG_X=` -- unmarked when it still
                    # holds an (ineffective, e.g. hidden) user value -- and an empty right-hand side cannot be loaded
                    cls += ":valueless-numeric-option"
            found.append((cls, item[1]))

    problems = _P()
    if version >= 2:
        vis = state.get("visible", {})
        for ch in CHANNELS:
            if ch == "defaults" and version < 3:
                continue
            mine, ref = state.get(ch, {}), fresh.get(ch, {})
            for k in sorted(set(mine) | set(ref)):
                if k in mine and k in ref:
                    a, b = mine[k], ref[k]
                    if ch == "ranges":
                        a, b = list(a), list(b)
                    if a != b or type(a) is not type(b):
                        problems.append(("%s:differs" % ch, "%s[%s]: client %r, fresh server %r" % (ch, k, mine[k], ref[k])))
                elif k in ref:
                    problems.append(("%s:missing" % ch, "%s[%s]: missing on the client, fresh server %r" % (ch, k, ref[k])))
                elif ch in ("values", "ranges"):
                    # not part of the fresh state: has to be reported invisible
                    if vis.get(k) is not False:
                        problems.append(("%s:stale-on-visible-option" % ch,
                                         "%s[%s]: client still holds %r and visible[%s] = %r, but the fresh server has no such entry"
                                         % (ch, k, mine[k], k, vis.get(k))))
                else:
                    problems.append(("%s:extra" % ch, "%s[%s]: client %r, absent from the fresh state" % (ch, k, mine[k])))
    else:
        vis = (fresh_v2 or {}).get("visible", {})
        mine, ref = state.get("values", {}), fresh.get("values", {})
        for k in sorted(ref):
            if vis.get(k) is not True:
                continue  # version 1 is compared on visible options
            if k not in mine:
                problems.append(("v1:values:missing", "values[%s]: missing on the client, fresh v1 server %r" % (k, ref[k])))
            elif mine[k] == ref[k] and type(mine[k]) is type(ref[k]):
                pass
            elif mine[k] is None or mine[k] is False:
                problems.append(("v1:values:invisible-marker-on-visible-option",
                                 "values[%s] (visible): client still holds the invisible marker %r, fresh v1 server %r" % (k, mine[k], ref[k])))
            else:
                problems.append(("v1:values:differs-on-visible-option", "values[%s] (visible): client %r, fresh v1 server %r" % (k, mine[k], ref[k])))
        for k in sorted(mine):
            if k not in ref and k not in vis and mine[k] not in (None, False):
                problems.append(("v1:values:extra", "values[%s]: client %r, unknown to the fresh server" % (k, mine[k])))
            elif k not in ref and vis.get(k) is True and mine[k] not in (None, False):
                problems.append(("v1:values:stale-on-visible-option", "values[%s]: client %r, fresh v1 server has no value" % (k, mine[k])))
        mine, ref = state.get("ranges", {}), fresh.get("ranges", {})
        for k in sorted(set(mine) | set(ref)):
            if vis.get(k) is not True:
                continue
            if k in mine and k in ref:
                if list(mine[k]) != list(ref[k]):
                    problems.append(("v1:ranges:differs", "ranges[%s]: client %r, fresh v1 server %r" % (k, mine[k], ref[k])))
            elif k in ref:
                problems.append(("v1:ranges:missing", "ranges[%s]: missing on the client, fresh v1 server %r" % (k, ref[k])))
            else:
                problems.append(("v1:ranges:stale-on-visible-option", "ranges[%s]: client still holds %r, fresh v1 server has no range" % (k, mine[k])))
    return found


def check_history(workdir, case, memo=None):
    """C14: run the request history of `case` through one server, replay the replies on the model client and compare
    at every checkpoint (successful `save` to a named file).  Returns dict(evals, nontrivial (list of checkpoint
    indices with a non-empty difference since the last checkpoint), violations [(class, text)])."""
    reqs = case["requests"]
    lines = [json.dumps(r) for r in reqs]
    out, exc, _snap = session(workdir, case, lines)
    res = {"evals": 0, "nontrivial": [], "violations": []}
    objs, complete = split_replies(out)
    if exc is not None:
        n = len(objs) - 1
        bad = reqs[n] if 0 <= n < len(reqs) else None
        res["violations"].append(("exception:run_server", "server died with %s while handling request #%d %s" % (exc, n, json.dumps(bad))))
    elif len(objs) != len(lines) + 1 or not complete or any(o is None for o in objs):
        res["violations"].append(("protocol:reply-count", "%d request lines, stdout: %r" % (len(lines), out[-300:])))
        return res
    if not objs or objs[0] is None:
        return res
    version = case["version"]
    state = client_new(objs[0])
    dirty = False
    rejected = set()  # classification aid only: options whose latest set / loaded assignment did not take effect
    assigned = {}  # classification aid only: option -> the value its latest set / loaded assignment put into effect
    sorts = case.get("sorts") or {}

    def note_assignments(text):
        # assignments of a hand-written configuration file (CONFIG_X=v / # CONFIG_X is not set) against the client
        for ln in text.splitlines():
            name, want = None, None
            if ln.startswith("CONFIG_") and "=" in ln:
                name, raw = ln[len("CONFIG_"):].split("=", 1)
                try:
                    srt = sorts.get(name)
                    if srt == "int":
                        want = int(raw)
                    elif srt == "hex":
                        want = int(raw, 16)
                    elif srt == "float":
                        want = float(raw)
                    elif srt in ("bool", "choice-member"):
                        want = raw == "y"
                    else:
                        want = raw[1:-1].replace('\\"', '"').replace("\\\\", "\\")
                except ValueError:
                    want = raw
            elif ln.startswith("# CONFIG_") and ln.endswith(" is not set"):
                name, want = ln[len("# CONFIG_"):-len(" is not set")], False
            if name in sorts:
                got = state.get("values", {}).get(name)
                if got != want or isinstance(got, bool) != isinstance(want, bool):
                    rejected.add(name)
                    assigned.pop(name, None)
                else:
                    rejected.discard(name)
                    assigned[name] = want

    note_assignments(case.get("sdk0", ""))
    for i, reply in enumerate(objs[1:]):
        if reply is None:
            break
        req = reqs[i]
        client_apply(state, reply)
        if isinstance(req, dict):
            if "load" in req:
                rejected.clear()
                assigned.clear()
                if req["load"] is None and not any(isinstance(q.get("load"), str) or isinstance(q.get("save"), str) for q in reqs[:i]):
                    note_assignments(case.get("sdk0", ""))
                elif req["load"] in case.get("files", {}):
                    note_assignments(case["files"][req["load"]])
            for k, want in (req.get("set") or {}).items():
                if sorts.get(k) == "hex" and isinstance(want, str):
                    want = int(want, 16)
                got = state.get("values", {}).get(k)
                if got != want or isinstance(got, bool) != isinstance(want, bool):
                    rejected.add(k)
                    assigned.pop(k, None)
                else:
                    rejected.discard(k)
                    assigned[k] = want
            if version >= 3:
                for k in req.get("reset") or []:
                    if k not in sorts:
                        # "all" or a menu id (or an unknown name): which options lose their user value is not tracked
                        assigned.clear()
                    if k == "all":
                        rejected.clear()
                    rejected.discard(k)
                    assigned.pop(k, None)
        if any(reply.get(ch) for ch in CHANNELS):
            dirty = True
        target = req.get("save") if isinstance(req, dict) else None
        if not isinstance(target, str):
            continue
        if any("Failed to save" in str(e) for e in reply.get("error", [])):
            res["violations"].append(("save:failed", "request #%d %s: %r" % (i, json.dumps(req), reply.get("error"))))
            continue
        fresh, problem = fresh_initial(workdir, case, target, version, memo)
        fresh_v2 = None
        if fresh is not None and version == 1:
            fresh_v2, problem = fresh_initial(workdir, case, target, 2, memo)
        if problem:
            res["violations"].append(("exception:fresh-server", "after request #%d: %s" % (i, problem)))
            continue
        res["evals"] += 1
        if dirty:
            res["nontrivial"].append(i)
        dirty = False
        for cls, text in compare_states(state, fresh, version, fresh_v2, sorts, rejected, assigned):
            res["violations"].append((cls, "protocol v%d, after request #%d %s (checkpoint %s): %s" % (version, i, json.dumps(req), target, text)))
    return res


def judge_twin(workdir, case):
    """C15: session A (with the offending request line) against its twin B (same session without the offending
    part).  Returns dict(violations [(class, text)], error_branch bool, exc, replies)."""
    kind = case["kind"]
    lines_a, lines_b = case["lines_a"], case["lines_b"]
    out_a, exc_a, snap_a = session(os.path.join(workdir, "a"), case, lines_a)
    out_b, exc_b, snap_b = session(os.path.join(workdir, "b"), case, lines_b)
    res = {"violations": [], "error_branch": False, "exc": exc_a, "out": out_a}
    objs_a, comp_a = split_replies(out_a)
    objs_b, comp_b = split_replies(out_b)
    if exc_b is not None or len(objs_b) != len(lines_b) + 1 or any(o is None for o in objs_b) or not comp_b:
        res["violations"].append(("twin-session-failed:" + kind, "the session WITHOUT the offending part failed: %s, stdout %r" % (exc_b, out_b[-300:])))
        return res
    bad_index = case["bad_index"]
    if exc_a is not None:
        res["error_branch"] = True
        res["violations"].append(("crash:" + kind, "request line %s killed the server: %s; %d reply lines for %d request lines"
                                  % (lines_a[min(max(len(objs_a) - 1, 0), len(lines_a) - 1)], exc_a, max(len(objs_a) - 1, 0), len(lines_a))))
        return res
    if any(o is None for o in objs_a) or not comp_a:
        res["violations"].append(("stdout-not-json:" + kind, "stdout carries something that is not a JSON object line: %r" % out_a[-400:]))
        return res
    if len(objs_a) != len(lines_a) + 1:
        res["violations"].append(("reply-count:" + kind, "%d request lines but %d reply lines" % (len(lines_a), len(objs_a) - 1)))
        return res
    reply = objs_a[1 + bad_index]
    errors = reply.get("error")
    has_err = isinstance(errors, list) and len(errors) > 0 and all(isinstance(e, str) for e in errors)
    if "error" in reply and not has_err:
        res["violations"].append(("error-list-malformed:" + kind, "reply %r" % (reply,)))
    joined = " ".join(errors).lower() if has_err else ""
    mentioned = has_err and any(m.lower() in joined for m in case["mentions"])
    res["error_branch"] = bool(has_err)
    state_a, state_b = client_new(objs_a[0]), client_new(objs_b[0])
    for o in objs_a[1:]:
        client_apply(state_a, o)
    for o in objs_b[1:]:
        client_apply(state_b, o)
    diffs = []
    config_differs = False
    if case["version"] == 1:
        # protocol 1 marks invisible options by the value null (replies), false (initial message) or not at all.
        # A protocol-1 client only knows the values and ranges channels: the reply to an unsupported version (one of
        # the offending lines of a mixed session) is built in the version-2+ layout and carries an empty `visible`
        # object, which must not switch this normalisation off.
        keys = set(state_a.get("values", {})) | set(state_b.get("values", {}))
        for st in (state_a, state_b):
            st.pop("visible", None)
            st.pop("defaults", None)
            old = st.get("values", {})
            st["values"] = dict((k, False if old.get(k) is None else old[k]) for k in keys)
    for ch in CHANNELS:
        a, b = state_a.get(ch, {}), state_b.get(ch, {})
        for k in sorted(set(a) | set(b)):
            if case["version"] == 1 and ch == "values" and k in a and k in b:
                # protocol 1 has no visibility channel: null (normalised to False above) marks an option the server
                # reported invisible at some point.  For a non-bool option "invisible marker on one side, a value on the
                # other" is not a difference the client can observe on visible options (C14: version 1 is compared on
                # visible options); the saved files below are compared in full and catch a real state difference.
                inv_a, inv_b = a[k] is False, b[k] is False
                if inv_a != inv_b and not isinstance(a[k] if inv_b else b[k], bool):
                    continue
            if k not in a or k not in b or a[k] != b[k] or type(a[k]) is not type(b[k]):
                diffs.append("client %s[%s]: %r with the offending part, %r without" % (ch, k, a.get(k, "<absent>"), b.get(k, "<absent>")))
                config_differs = True
    for p in sorted(set(snap_a) | set(snap_b)):
        if snap_a.get(p, "<absent>") != snap_b.get(p, "<absent>"):
            la = (snap_a.get(p) or "<absent or dir>").splitlines()
            lb = (snap_b.get(p) or "<absent or dir>").splitlines()
            only = [x for x in la if x not in lb][:3], [x for x in lb if x not in la][:3]
            diffs.append("file %s differs (only with the offending part: %r; only without: %r)" % (p, only[0], only[1]))
            if p == "final.out":
                config_differs = True
    what = "offending request %s (twin got %s); reply %s" % (lines_a[bad_index], lines_b[bad_index] if case["clean_sent"] else "no line", json.dumps(reply)[:300])
    if diffs and not config_differs:
        # same configuration, but the final `save: null` went to a different file: the offending request changed the
        # server's "last used file"
        res["violations"].append(("last-used-file-changed:" + kind, "%s; afterwards: %s" % (what, "; ".join(diffs[:4]))))
    elif diffs:
        cls = ("state-changed-despite-error:" if mentioned else "accepted:") + kind
        res["violations"].append((cls, "%s; afterwards: %s" % (what, "; ".join(diffs[:4]))))
    elif case["require_error"] and not mentioned:
        res["violations"].append(("unreported:" + kind, "%s; the error list does not mention any of %r" % (what, case["mentions"])))
    return res


SHARED_FUNCS = (serve, split_replies, client_new, client_apply, materialize, snapshot_dir, session, fresh_initial,
                compare_states, check_history, judge_twin)

_SCRIPT_HEAD = '''\
#!/usr/bin/env python
# Replay of one case of rtc.drv_server (property %(prop)s, class %(cls)s) on the tree $PYVC_REPO (default /repo).
# exit 1: the violation shows; exit 0: it does not.
import io, json, os, shutil, sys, tempfile
sys.path.insert(0, os.environ.get("PYVC_REPO", "/repo"))
import kconfserver.core as SRV
for _v in ("KCONFIG_PARSER_VERSION", "COMPONENT_SDKCONFIG_RENAMES", "KCONFIG_DEFAULTS_POLICY", "IDF_VERSION", "srctree", "CONFIG_"):
    os.environ.pop(_v, None)
os.environ["KCONFIG_REPORT_VERBOSITY"] = "quiet"  # only silences the library's notes / warnings on stderr
CHANNELS = %(channels)r

'''

_SCRIPT_TAIL_C14 = '''
CASE = json.loads(%(case)r)
WANT = %(cls)r
work = tempfile.mkdtemp(prefix="drvsrv")
try:
    res = check_history(os.path.join(work, "w"), CASE)
finally:
    shutil.rmtree(work, ignore_errors=True)
hits = [t for (c, t) in res["violations"] if c == WANT]
print("Kconfig:\\n" + CASE["text"])
for r in CASE["requests"]:
    print("> " + json.dumps(r))
for t in hits:
    print("VIOLATION " + WANT + ": " + t)
if not hits:
    print("no violation of class " + WANT)
sys.exit(1 if hits else 0)
'''

_SCRIPT_TAIL_C15 = '''
CASE = json.loads(%(case)r)
WANT = %(cls)r
work = tempfile.mkdtemp(prefix="drvsrv")
try:
    res = judge_twin(work, CASE)
finally:
    shutil.rmtree(work, ignore_errors=True)
hits = [t for (c, t) in res["violations"] if c == WANT]
print("Kconfig:\\n" + CASE["text"])
for l in CASE["lines_a"]:
    print("> " + l)
for t in hits:
    print("VIOLATION " + WANT + ": " + t)
if not hits:
    print("no violation of class " + WANT)
sys.exit(1 if hits else 0)
'''


def make_script(prop, cls, case):
    head = _SCRIPT_HEAD % {"prop": prop, "cls": cls, "channels": CHANNELS}
    body = "\n\n".join(inspect.getsource(f) for f in SHARED_FUNCS)
    tail = (_SCRIPT_TAIL_C14 if prop == "C14" else _SCRIPT_TAIL_C15) % {"case": json.dumps(case, sort_keys=True), "cls": cls}
    return head + body + "\n" + tail


# =====================================================================================================================
# Scope: hand-written trees (the shapes named by the properties) + rtc.gen corpus
# =====================================================================================================================

_MM = 'mainmenu "T"\n\n'

# name -> (Kconfig text, scripted histories (protocol-3 requests without the version key; requests with "reset" are
# dropped for versions 1 and 2))
FIXTURES_C14 = [
    ("fx:set-if-force", _MM + """\
config FORCE
    bool "force"
    default n
    set LEVEL=5 if FORCE
    set NAME="forced" if FORCE

config WEAK
    bool "weak"
    default n
    set default LEVEL=8 if WEAK

config LEVEL
    int "level"
    default 3

config NAME
    string "name"
    default "abc"

config OTHER
    string "other"
    default "o"
""", [[{"set": {"LEVEL": 7}}, {"set": {"OTHER": "x"}}, {"set": {"FORCE": True}}, {"set": {"OTHER": "y"}}, {"set": {"FORCE": False}},
       {"set": {"WEAK": True}}, {"reset": ["LEVEL"]}, {"set": {"FORCE": True, "NAME": "mine"}}, {"reset": ["all"]}]]),
    ("fx:set-sym-value", _MM + """\
config SRC
    int "src"
    default 4

config VIA
    bool "via"
    set TGT=SRC if VIA
    set default HT=0x30

config TGT
    int "tgt"
    range 0 100
    default 1

config HT
    hex "ht"
    default 0x1
""", [[{"set": {"TGT": 9}}, {"set": {"VIA": True}}, {"set": {"SRC": 50}}, {"set": {"SRC": 500}}, {"set": {"VIA": False}}, {"set": {"HT": 7}},
       {"reset": ["HT"]}]]),
    ("fx:range-sym-bounds", _MM + """\
config MINV
    int "min"
    default 2

config MAXV
    int "max"
    default 10

config X
    int "x"
    range MINV MAXV
    default 3

config HMAX
    hex "hmax"
    default 0x40

config HX
    hex "hx"
    range 0x10 HMAX
    default 0x20

config FMAX
    float "fmax"
    default 10.0

config FX
    float "fx"
    range 0.5 FMAX
    default 1.5
""", [[{"set": {"X": 8}}, {"set": {"MAXV": 5}}, {"set": {"HX": 48}}, {"set": {"MAXV": 20}}, {"set": {"MINV": 9}}, {"set": {"HMAX": 32}},
       {"set": {"FX": 5.5}}, {"set": {"FMAX": 2.0}}, {"set": {"HMAX": "ff"}}, {"reset": ["MAXV", "MINV"]}, {"set": {"FMAX": 100.0}}]]),
    ("fx:numeric-without-value", _MM + """\
config B
    bool "b"
    default y

config N
    int "n"

config NH
    hex "nh"

config NF
    float "nf"

config ND
    int "nd"
    default 5 if B

config NP
    int
    default 7 if !B

config NR
    int "nr"
    range 1 9
""", [[{"set": {"B": False}}, {"set": {"N": 4}}, {"set": {"B": True}}, {"reset": ["N"]}, {"set": {"NH": "1f", "NF": 0.25}}, {"set": {"NR": 50}},
       {"reset": ["all"]}, {"set": {"ND": 6}}, {"set": {"B": False}}]]),
    ("fx:range-becomes-inactive", _MM + """\
config B
    bool "b"
    default y

config C
    bool "c"
    default n

config R
    int "r"
    range 0 10 if B
    range 20 30 if C
    default 5

config RH
    hex "rh"
    range 0x0 0xff if B
    default 0x10

config RF
    float "rf"
    range 0.0 1.0 if !C
    default 0.5
""", [[{"set": {"R": 9}}, {"set": {"B": False}}, {"set": {"R": 50}}, {"set": {"C": True}}, {"set": {"B": True}}, {"set": {"RF": 7.5}},
       {"set": {"C": False}}, {"reset": ["R"]}, {"set": {"B": False, "RH": 4096}}]]),
    ("fx:menus-become-invisible", _MM + """\
config B
    bool "b"
    default y

config C
    bool "c"
    default y

menu "Outer"
    depends on B

    config I1
        int "i1"
        default 1

    menu "Inner"
        visible if C

        config I2
            int "i2"
            default 2

        config S2
            string "s2"
            default "x"

    endmenu

endmenu

menuconfig MC
    bool "mc"
    default y

config MCC
    int "mcc"
    depends on MC
    default 3

menu "Promptless only"

    config PL
        int
        default 7

endmenu

comment "note"
    depends on C
""", [[{"set": {"I2": 5, "S2": "s"}}, {"set": {"C": False}}, {"set": {"B": False}}, {"set": {"I1": 4}}, {"set": {"B": True}}, {"set": {"MC": False}},
       {"set": {"C": True}}, {"reset": ["outer-Kconfig-11"]}, {"reset": ["outer-inner-Kconfig-18"]}, {"set": {"MC": True, "MCC": 8}}]]),
    ("fx:prompt-if-select-imply", _MM + """\
config B
    bool "b"
    default y

config P
    int "p" if B
    default 5

config Q
    string "q" if !B
    default "q"

config SEL
    bool "sel"
    select T1
    imply T2

config T1
    bool "t1"

config T2
    bool "t2"

config T3
    bool "t3" if !SEL
    default y if SEL
""", [[{"set": {"P": 6}}, {"set": {"B": False}}, {"set": {"Q": "w"}}, {"set": {"B": True}}, {"set": {"SEL": True}}, {"set": {"T2": False}},
       {"set": {"SEL": False}}, {"reset": ["P", "T2"]}]]),
    ("fx:choice", _MM + """\
config B
    bool "b"
    default y

choice CH
    prompt "ch"
    default M2 if B
    default M1

    config M1
        bool "m1"

    config M2
        bool "m2"

    config M3
        bool "m3" if B

endchoice

config DEP
    int "dep"
    default 1 if M1
    default 2 if M2
    default 3

choice
    prompt "hidden ch"
    depends on !B

    config N1
        bool "n1"

    config N2
        bool "n2"

endchoice
""", [[{"set": {"M3": True}}, {"set": {"B": False}}, {"set": {"N2": True}}, {"set": {"B": True}}, {"set": {"M1": True}}, {"reset": ["M1"]},
       {"set": {"DEP": 9}}, {"reset": ["all"]}]]),
    ("fx:defined-twice", _MM + """\
config B
    bool "b"
    default y

config D
    int "d"
    range 0 5
    default 1

config E
    string
    default "e"

menu "Again"
    depends on B

    config D
        int "d again"
        default 9

    config E
        string "e again"

endmenu
""", [[{"set": {"D": 4}}, {"set": {"B": False}}, {"set": {"E": "z"}}, {"set": {"B": True}}, {"set": {"E": "z"}}, {"reset": ["again-Kconfig-17"]}]]),
    ("fx:compare-conditions", _MM + """\
config LVL
    int "lvl"
    range 0 9
    default 3

config MODE
    string "mode"
    default "fast"

config HI
    bool "hi" if LVL > 5
    default y if MODE = "slow"

config LIM
    int "lim"
    range 0 LVL
    default 2 if LVL < 4
    default 8

config TXT
    string "txt"
    depends on MODE != "off"
    default "ab cd"
""", [[{"set": {"LIM": 3}}, {"set": {"LVL": 7}}, {"set": {"HI": True}}, {"set": {"LVL": 1}}, {"set": {"MODE": "off"}}, {"set": {"MODE": "slow"}},
       {"set": {"TXT": "q \"x\" \\ # \u00e9"}}, {"reset": ["LVL"]}]]),
    # `load` of an earlier checkpoint over a configuration in which the user picked another choice member: the
    # default-marked entries of the file (K) must be judged against the configuration being loaded, not against the
    # pick left over from before the load (K is visible and has another default only under that pick)
    ("fx:load-over-choice-pick", _MM + """\
choice CH
    prompt "ch"

    config A
        bool "a"

    config B
        bool "b"

endchoice

config G
    bool "g"

config K
    int "k" if B
    default 5 if B
    default 1 if !G
    default 2

menu "Dep"
    depends on K != 1

    config D
        int "d"
        default 3

endmenu
""", [[{"set": {"G": False}}, {"set": {"B": True}}, {"load": "ck0"}, {"set": {"G": True}}]]),
]

FIXTURE_C15 = ("fx15:all-types", _MM + """\
config B
    bool "b"
    default y

config B2
    bool "b2"
    default n

config I
    int "i"
    range 0 10
    default 5

config IU
    int "iu"
    default 3

config H
    hex "h"
    range 0x10 0xff
    default 0x20

config HU
    hex "hu"
    default 0x1

config S
    string "s"
    default "abc"

config F
    float "f"
    range 0.0 10.0
    default 1.5

config FU
    float "fu"
    default 2.5

config N
    int "n"

config HID
    int "hid"
    depends on B2
    default 1

config PL
    int
    default 9

menu "M"
    depends on B

    config X
        int "x"
        default 3

endmenu

choice CH
    prompt "ch"
    default M1

    config M1
        bool "m1"

    config M2
        bool "m2"

endchoice
""")

_TYPE_RE = re.compile(r"^[ \t]*(?:menu)?config[ \t]+(\w+)[ \t]*(?:#[^\n]*)?\n[ \t]*(bool|int|hex|string|float)\b", re.M)
_STRS = ("", "hello", "a b", 'q"uote', "back\\slash", "#hash", "y", "it's", "\u00e9\u00df", "[/x]")


def crc(*parts):
    return zlib.crc32("\x1f".join(str(p) for p in parts).encode("utf-8"))


def tree_meta(text):
    """Static information a client reads from the metadata file: option names in file order and their types; value
    pools for the histories are the literals that occur in the tree, +-1."""
    types = {}
    order = []
    for m in _TYPE_RE.finditer(text):
        if m.group(1) not in types:
            types[m.group(1)] = m.group(2)
            order.append(m.group(1))
    ints, hexs, floats = set([0, 1, 7, 100]), set([0, 16, 255]), set([0.0, 1.5, 100.0])
    for line in text.splitlines():
        toks = line.replace("=", " ").split()
        if not toks or toks[0] not in ("default", "range", "set", "bool", "int", "hex", "string", "float", "prompt", "depends", "visible", "if"):
            continue
        for t in toks[1:]:
            if re.fullmatch(r"-?\d+", t):
                for d in (-1, 0, 1):
                    ints.add(int(t) + d)
            if re.fullmatch(r"(0[xX])?[0-9a-fA-F]+", t) and not re.fullmatch(r"[A-Z]\d+", t):
                for d in (-1, 0, 1):
                    if int(t, 16) + d >= 0:
                        hexs.add(int(t, 16) + d)
            if re.fullmatch(r"-?\d+(\.\d+)?([eE]-?\d+)?", t):
                for d in (-0.5, 0.0, 0.5):
                    floats.add(float(t) + d)
    sorts = dict(types)
    depth = 0
    for line in text.splitlines():
        toks = line.split()
        if toks and toks[0] == "choice":
            depth += 1
        elif toks and toks[0] == "endchoice":
            depth -= 1
        elif len(toks) >= 2 and toks[0] in ("config", "menuconfig") and depth > 0:
            sorts[toks[1]] = "choice-member"
    return {"types": types, "order": order, "sorts": sorts, "int": sorted(ints), "hex": sorted(hexs), "float": sorted(floats)}


def pick_value(rng, typ, meta):
    if typ == "bool":
        return rng.random() < 0.5
    if typ == "int":
        return rng.choice(meta["int"])
    if typ == "hex":
        v = rng.choice(meta["hex"])
        return format(v, "x" if rng.random() < 0.5 else "X") if rng.random() < 0.3 else v
    if typ == "float":
        v = rng.choice(meta["float"])
        return int(v) if (v == int(v) and rng.random() < 0.3) else v
    return rng.choice(_STRS)


def ext_config(rng, meta):
    """A hand-edited configuration file: assignments for about 60 % of the options."""
    out = []
    for name in meta["order"]:
        if rng.random() >= 0.6:
            continue
        typ = meta["types"][name]
        if typ == "bool":
            out.append("CONFIG_%s=y" % name if rng.random() < 0.5 else "# CONFIG_%s is not set" % name)
        elif typ == "int":
            out.append("CONFIG_%s=%d" % (name, rng.choice(meta["int"])))
        elif typ == "hex":
            out.append("CONFIG_%s=0x%x" % (name, rng.choice(meta["hex"])))
        elif typ == "float":
            out.append("CONFIG_%s=%r" % (name, rng.choice(meta["float"])))
        else:
            out.append('CONFIG_%s="%s"' % (name, gen.kescape(rng.choice(_STRS))))
    return "\n".join(out) + "\n"


def gen_history(rng, meta, version, length, menu_ids):
    """`length` requests (set of 1..3 options incl. invisible / unknown ones, reset of symbols / menus / all, load of
    an earlier checkpoint / an external file / null, combinations), each followed with probability 0.8 (the last one
    always) by a checkpoint `save` to a new file."""
    names = meta["order"]
    reqs = []
    ck = 0

    def some_set(n):
        d = {}
        for name in rng.sample(names, min(n, len(names))):
            d[name] = pick_value(rng, meta["types"][name], meta)
        return d

    def some_load():
        choices = [None, "ext0", "ext1"] + ["ck%d" % j for j in range(ck)]
        return rng.choice(choices)

    def some_reset():
        k = rng.random()
        if k < 0.2:
            return ["all"]
        if k < 0.45 and menu_ids:
            return [rng.choice(menu_ids)] + (rng.sample(names, 1) if rng.random() < 0.3 else [])
        if k < 0.5:
            return ["NO_SUCH_OPTION"] + rng.sample(names, 1)
        return rng.sample(names, min(len(names), rng.choice((1, 1, 2))))

    for i in range(length):
        r = {"version": version}
        k = rng.random()
        if k < 0.45:
            r["set"] = some_set(rng.choice((1, 1, 1, 2, 3)))
        elif k < 0.68:
            if version >= 3 or rng.random() < 0.15:
                r["reset"] = some_reset()
            else:
                r["set"] = some_set(2)
        elif k < 0.76:
            r["load"] = some_load()
        elif k < 0.84:
            r["load"] = some_load()
            r["set"] = some_set(1)
        elif k < 0.92 and version >= 3:
            r["set"] = some_set(1)
            r["reset"] = some_reset()
        else:
            r["set"] = some_set(1)
            r["set"]["NO_SUCH_OPTION"] = True
        last = i == length - 1
        if rng.random() < 0.15:
            r["save"] = "ck%d" % ck
            ck += 1
            reqs.append(r)
        else:
            reqs.append(r)
            if last or rng.random() < 0.8:
                reqs.append({"version": version, "save": "ck%d" % ck})
                ck += 1
    return reqs


def scripted_history(script, version):
    reqs = []
    ck = 0
    for r in script:
        if "reset" in r and version < 3:
            continue
        q = {"version": version}
        q.update(r)
        reqs.append(q)
        reqs.append({"version": version, "save": "ck%d" % ck})
        ck += 1
    return reqs


# =====================================================================================================================
# Workers
# =====================================================================================================================

_WORK = {"dir": None, "root": None}


def _worker_init():
    """Forked pool worker: no library environment variables, quiet logger (log.err / log.print(file=sys.stderr) of
    the server still render their markup), fds 0-2 on /dev/null so that nothing the library does with low file
    descriptors (e.g. a `save` to the number 1) can reach the driver's own stdout."""
    gen.scrub_env()
    gen.silence_library_log()
    devnull = os.open(os.devnull, os.O_RDWR)
    for fd in (0, 1, 2):
        os.dup2(devnull, fd)
    _WORK["dir"] = tempfile.mkdtemp(prefix="w", dir=_WORK["root"])


def _workdir():
    if _WORK["dir"] is None or not os.path.isdir(_WORK["dir"]):
        _WORK["dir"] = tempfile.mkdtemp(prefix="w", dir=_WORK["root"])
    return _WORK["dir"]


def _discover(base_case, workdir):
    """Initial v3 message on the case's initial configuration -> (message, menu ids)."""
    out, exc, _ = session(workdir, dict(base_case, version=3), [])
    objs, _c = split_replies(out)
    if exc is not None or len(objs) != 1 or objs[0] is None:
        return None, [], "initial message: %s / %r" % (exc, out[:200])
    names = set(tree_meta(base_case["text"])["types"])
    menu_ids = sorted(k for k in objs[0].get("visible", {}) if k not in names)
    return objs[0], menu_ids, None


def _c14_tree(task):
    """All histories of one tree. Returns a result dict (picklable)."""
    t0 = time.time()
    res = {"evals": 0, "nontrivial": 0, "histories": 0, "violations": {}, "samples": [], "error": None}
    try:
        work = os.path.join(_workdir(), "c14")
        text, rename, origin, parser = task["text"], task["rename"], task["origin"], task["parser"]
        meta = tree_meta(text)
        if not meta["order"]:
            return res
        base = {"text": text, "rename": rename, "parser": parser, "origin": origin, "sorts": meta["sorts"]}
        init, menu_ids, problem = _discover(base, work)
        if problem:
            res["violations"]["exception:initial-message"] = {"text": problem, "case": dict(base, version=3, requests=[]), "count": 1}
            return res
        erng = random.Random(crc("ext", text))
        files = {"ext0": ext_config(erng, meta), "ext1": ext_config(erng, meta)}
        memo = {}
        seen = set()
        for version in task["versions"]:
            histories = [("scripted", scripted_history(s, version)) for s in task.get("scripts", [])]
            for h in range(task["n_hist"]):
                rng = random.Random(crc("c14", task["seed"], origin, version, h))
                histories.append(("random:%d" % h, gen_history(rng, meta, version, task["hist_len"], menu_ids)))
            for hi, (hname, reqs) in enumerate(histories):
                sdk0 = files["ext0"] if (hi % 3 == 2) else ""
                case = dict(base, version=version, requests=reqs, files=files, sdk0=sdk0)
                r = check_history(work, case, memo)
                res["histories"] += 1
                res["evals"] += r["evals"]
                for i in r["nontrivial"]:
                    key = crc(version, sdk0, json.dumps(reqs[: i + 1], sort_keys=True))
                    if key not in seen:
                        seen.add(key)
                        res["nontrivial"] += 1
                if len(res["samples"]) < 1 and r["nontrivial"]:
                    res["samples"].append({"tree": origin, "version": version, "history": hname, "requests": reqs[:4], "checkpoints": r["evals"]})
                for cls, txt in r["violations"]:
                    slot = res["violations"].get(cls)
                    size = len(reqs) * 10000 + len(text)
                    if slot is None:
                        res["violations"][cls] = {"text": txt, "case": case, "count": 1, "size": size}
                    else:
                        slot["count"] += 1
                        if size < slot["size"]:
                            slot.update(text=txt, case=case, size=size)
            gen.reset_library_report()
    except Exception:  # noqa: BLE001 - driver bug: surface as checker_error
        res["error"] = "%s\n%s" % (task.get("origin"), traceback.format_exc())
    res["seconds"] = time.time() - t0
    return res


# ---------------------------------------------------------------------------------------------------------------------
# C15 case construction
# ---------------------------------------------------------------------------------------------------------------------

_MARKUP_NAMES = ("A[/x]", "A[", "A]", "[/]", "[bold]A[/bold]", "ARRAY[/0]", "[red]", "A[[/x]")


def _alt_value(typ, cur, rng_lo_hi, step):
    """A valid value of the documented JSON type that differs from the current one (inside the active range)."""
    if typ == "bool":
        return not bool(cur)
    if typ == "string":
        return (cur if isinstance(cur, str) else "") + "x" * step
    lo, hi = rng_lo_hi if rng_lo_hi else (None, None)
    base = cur if isinstance(cur, (int, float)) and not isinstance(cur, bool) else (lo if lo is not None else 1)
    if typ == "float":
        v = float(base) + 0.5 * step
        if hi is not None and v > hi:
            v = float(base) - 0.5 * step
        return v
    v = int(base) + step
    if hi is not None and v > hi:
        v = int(base) - step
    if lo is not None and v < lo:
        v = lo
    return v


def _wrong_values(typ, alt):
    """(kind suffix, JSON value) pairs that are NOT of the JSON type documented for the option type, derived from a
    valid alternative value `alt` so that a silent acceptance is observable."""
    if typ == "bool":
        n = 1 if alt else 0
        return [("int", n), ("float", float(n)), ("float", -0.0 if not alt else 1.0), ("string", "y" if alt else "n"),
                ("string", "true" if alt else "false"), ("string", ""), ("null", None), ("list", [alt]), ("object", {"v": alt}), ("int", 2), ("int", 11)]
    if typ == "int":
        return [("string", str(alt)), ("string", "abc"), ("string", ""), ("float", float(alt)), ("float", alt + 0.5), ("float", 1e30),
                ("bool", True), ("null", None), ("list", [alt]), ("object", {"v": alt})]
    if typ == "hex":
        return [("float", float(alt)), ("float", alt + 0.5), ("bool", True), ("bool", False), ("null", None), ("list", [alt]), ("object", {"v": alt})]
    if typ == "float":
        return [("string", repr(float(alt))), ("string", "abc"), ("bool", True), ("null", None), ("list", [alt]), ("object", {"v": alt})]
    return [("int", 5), ("float", 1.5), ("bool", True), ("null", None), ("list", ["a"]), ("object", {"a": 1})]


def _invalid_values(typ, alt):
    """Values of the documented JSON type whose content is invalid for the option (may be ignored silently)."""
    if typ == "hex":
        return [("bad-digits", "xyz"), ("empty-string", ""), ("negative", -5), ("negative", "-5")]
    if typ == "float":
        return [("nan", float("nan")), ("infinity", float("inf"))]
    return []


def c15_cases(base, version, state, meta, menu_ids):
    """All offending requests for one tree / protocol version.  `state`: model client state after the prefix.  Each
    case: kind, bad (request dict or raw line), clean (request dict or None = no line), mentions, require_error."""
    V = version
    vis = state.get("visible", {})
    vals = state.get("values", {})
    ranges = state.get("ranges", {})
    types = meta["types"]
    visible = [n for n in meta["order"] if vis.get(n) is True]
    cases = []

    def co_change(exclude):
        for n in visible:
            if n != exclude and types[n] != "bool":
                return {n: _alt_value(types[n], vals.get(n), ranges.get(n), 2)}
        return {}

    def add(kind, bad, clean, mentions, require_error=True):
        cases.append({"kind": kind, "bad": bad, "clean": clean, "mentions": list(mentions), "require_error": require_error})

    def with_part(key, value, extra):
        r = {"version": V}
        r.update(extra)
        r[key] = value
        return r

    # ---- value level: every wrong JSON type for every visible option
    for n in visible:
        typ = types[n]
        alt = _alt_value(typ, vals.get(n), ranges.get(n), 1)
        co = co_change(n)
        clean = {"version": V, "set": dict(co)}
        for suffix, v in _wrong_values(typ, alt):
            add("%s-%s-value" % (typ, suffix), {"version": V, "set": dict(co, **{n: v})}, clean, [n], require_error=False)
        for suffix, v in _invalid_values(typ, alt):
            add("%s-%s-value" % (typ, suffix), {"version": V, "set": dict(co, **{n: v})}, clean, [n], require_error=False)
        if n in ranges and typ in ("int", "hex", "float"):
            lo, hi = ranges[n]
            one = 0.5 if typ == "float" else 1
            outs = [hi + one, 10 ** 30 if typ != "float" else 1e300]
            if not (typ == "hex" and lo - one < 0):
                outs.append(lo - one)
            for v in outs:
                add("%s-out-of-range-value" % typ, {"version": V, "set": dict(co, **{n: v})}, clean, [n], require_error=False)
    # ---- unknown / invisible / markup-looking option names in set
    co = co_change(None)
    clean = {"version": V, "set": dict(co)}
    add("set-unknown-option", {"version": V, "set": dict(co, NO_SUCH_OPTION=True)}, clean, ["NO_SUCH_OPTION"])
    add("set-unknown-option", {"version": V, "set": dict(co, **{"": 1})}, clean, ["not found", "unknown"])
    for nm in _MARKUP_NAMES:
        add("set-unknown-option-markup-name", {"version": V, "set": dict(co, **{nm: 1})}, clean, [nm])
    hidden = [n for n in meta["order"] if n not in visible][:3]
    for n in hidden:
        # alone in its request: a co-change could make it visible, and then setting it is legitimate
        add("set-invisible-option", {"version": V, "set": {n: _alt_value(types[n], vals.get(n), ranges.get(n), 1)}}, {"version": V, "set": {}}, [n])
    # ---- set that is not an object
    for v in ([1], ["B"], "B", None, 5, True, [["B", False]], 1.5):
        add("set-non-dict", {"version": V, "set": v}, {"version": V}, [""])
    # ---- reset
    some = visible[0] if visible else (meta["order"][0] if meta["order"] else "X")
    if V >= 3:
        for v in ("all", some, 5, None, True, {some: 1}, 1.5):
            add("reset-non-list", {"version": V, "reset": v}, {"version": V}, [""])
        for v in (5, None, [some], {"a": 1}, True, 1.5):
            add("reset-non-string-item", {"version": V, "reset": [some, v]}, {"version": V, "reset": [some]}, ["reset", json.dumps(v)])
        add("reset-unknown-symbol", {"version": V, "reset": [some, "NO_SUCH_OPTION"]}, {"version": V, "reset": [some]}, ["NO_SUCH_OPTION"])
        add("reset-unknown-menu", {"version": V, "reset": [some, "no-such-menu-1"]}, {"version": V, "reset": [some]}, ["no-such-menu-1"])
        add("reset-unknown-menu", {"version": V, "reset": [some, ""]}, {"version": V, "reset": [some]}, ["not found", "not symbols"])
        for nm in _MARKUP_NAMES:
            add("reset-unknown-markup-name", {"version": V, "reset": [some, nm]}, {"version": V, "reset": [some]}, [nm])
            add("reset-unknown-markup-name", {"version": V, "reset": [some, "m-" + nm + "-1"]}, {"version": V, "reset": [some]}, [nm])
    else:
        add("reset-in-old-protocol", {"version": V, "set": dict(co), "reset": [some]}, clean, ["reset"])
    # ---- load / save
    for v in (5, True, ["a"], {"a": 1}, 1.5):
        add("load-non-string", with_part("load", v, {"set": dict(co)}), clean, ["load"])
    for v in ("nodir/none", "adir", "", "bad[/x]name", "[/0]", "a[bold]"):
        add("load-unreadable-file", with_part("load", v, {"set": dict(co)}), clean, [v if v else "load"])
    add("load-undecodable-file", with_part("load", "latin.cfg", {"set": dict(co)}), clean, ["latin.cfg"])
    for v in (5000, True, ["a"], {"a": 1}, 1.5):
        add("save-non-string", with_part("save", v, {"set": dict(co)}), clean, ["save"])
    for v in ("nodir/out", "afile/out", "", "no[/x]dir/out", "[/0]/out"):
        add("save-unwritable-path", with_part("save", v, {"set": dict(co)}), clean, [v if v else "save"])
    # ---- versions
    payload = {"set": dict(co)}
    add("version-missing", dict(payload), None, ["version"])
    add("version-missing", {}, None, ["version"])
    for v in (0, 4, 777, -1, 1e308, 10 ** 30):
        add("version-unsupported", dict(payload, version=v), None, ["version"])
    add("version-fraction", dict(payload, version=2.5), None, ["version"])
    for suffix, v in (("string", "3"), ("string", ""), ("null", None), ("list", [3]), ("object", {"v": 3})):
        add("version-non-numeric-%s" % suffix, dict(payload, version=v), None, ["version"])
    add("version-bool", dict(payload, version=True), None, ["version"])
    add("version-unsupported-with-files", {"version": 777, "load": "ext.cfg", "set": dict(co), "save": "out777"}, None, ["version"])
    # ---- lines that are not a JSON object / not JSON at all
    for raw in ("not json", '{"version": %d,' % V, "{'version': %d}" % V, '{"version": %d}{"version": %d}' % (V, V), "", " ", "\t{", "]", '{"version": %d, "set": {"X": 01}}' % V,
                "\u00e9\u00df", "\\u0000"):
        add("malformed-json", raw, None, ["json"])
    for suffix, raw in (("number", "5"), ("number", "-1.5"), ("number", "NaN"), ("null", "null"), ("bool", "true"), ("list", "[]"), ("list", "[1, 2]"),
                        ("list", '[{"version": %d}]' % V), ("list-with-version", '["version"]'), ("string", '"abc"'), ("string-with-version", '"version"'),
                        ("string", '""')):
        add("non-object-%s" % suffix, raw, None, [""])
    return cases


def _line(x):
    return x if isinstance(x, str) else json.dumps(x)


def _c15_tree(task):
    t0 = time.time()
    res = {"evals": 0, "nontrivial": 0, "violations": {}, "samples": [], "error": None, "kinds": {}}
    try:
        work = os.path.join(_workdir(), "c15")
        text, rename, origin, parser = task["text"], task["rename"], task["origin"], task["parser"]
        meta = tree_meta(text)
        if not meta["order"]:
            return res
        files = {"latin.cfg": 'CONFIG_%s=y\nCONFIG_X="\xff\xfe"\n# CONFIG_%s is not set\n' % (meta["order"][0], meta["order"][-1]),
                 "afile": "plain file\n", "ext.cfg": "# empty\n"}
        base = {"text": text, "rename": rename, "parser": parser, "origin": origin, "files": files, "dirs": ["adir"], "sdk0": ""}
        init, menu_ids, problem = _discover(base, os.path.join(work, "d"))
        if problem:
            res["violations"]["exception:initial-message"] = {"text": problem, "case": None, "count": 1, "size": 0}
            return res
        for version in task["versions"]:
            # prefix: give every visible non-bool option a user value (documented JSON types only)
            vals0, vis0, rng0 = init.get("values", {}), init.get("visible", {}), init.get("ranges", {})
            pre = {}
            for n in meta["order"]:
                if vis0.get(n) and meta["types"][n] != "bool":
                    pre[n] = _alt_value(meta["types"][n], vals0.get(n), rng0.get(n), 1)
            prefix = [{"version": version, "set": pre}] if pre else []
            pcase = dict(base, version=version)
            out, exc, _s = session(os.path.join(work, "d"), pcase, [_line(p) for p in prefix])
            objs, _c = split_replies(out)
            if exc is not None or len(objs) != len(prefix) + 1 or any(o is None for o in objs):
                res["violations"]["exception:valid-prefix"] = {"text": "valid prefix %r failed: %s" % (prefix, exc), "case": None, "count": 1, "size": 0}
                continue
            # the state the offending requests are built against is read through protocol 3 (visibility, ranges)
            out3, exc3, _s = session(os.path.join(work, "d"), dict(base, version=3), [_line(dict(p, version=3)) for p in prefix])
            objs3, _c = split_replies(out3)
            if exc3 is not None or any(o is None for o in objs3):
                continue
            state = client_new(objs3[0])
            for o in objs3[1:]:
                client_apply(state, o)
            cases = c15_cases(base, version, state, meta, menu_ids)
            # valid probe after the offending line (the server keeps serving): the LAST visible non-bool option (the
            # co-change of the offending request uses the first one), none if there is only one
            probe = {"version": version, "set": {}}
            nonbool = [n for n in meta["order"] if vis0.get(n) and meta["types"][n] != "bool"]
            if len(nonbool) > 1:
                n = nonbool[-1]
                probe["set"][n] = _alt_value(meta["types"][n], vals0.get(n), rng0.get(n), 5)
            tail = [probe, {"version": version, "save": "final.out"}, {"version": version, "save": None}]
            passed = []
            for c in cases:
                if task.get("kinds") and c["kind"] not in task["kinds"]:
                    continue
                lines_a = [_line(p) for p in prefix] + [_line(c["bad"])] + [_line(t) for t in tail]
                lines_b = [_line(p) for p in prefix] + ([_line(c["clean"])] if c["clean"] is not None else []) + [_line(t) for t in tail]
                case = dict(base, version=version, kind=c["kind"], lines_a=lines_a, lines_b=lines_b, bad_index=len(prefix),
                            clean_sent=c["clean"] is not None, mentions=c["mentions"], require_error=c["require_error"])
                r = judge_twin(work, case)
                res["evals"] += 1
                res["kinds"][c["kind"]] = res["kinds"].get(c["kind"], 0) + 1
                if r["error_branch"]:
                    res["nontrivial"] += 1
                if not r["violations"]:
                    passed.append(c)
                    if len(res["samples"]) < 1 and r["error_branch"]:
                        res["samples"].append({"tree": origin, "version": version, "kind": c["kind"], "request": lines_a[len(prefix)][:120]})
                for cls, txt in r["violations"]:
                    slot = res["violations"].get(cls)
                    size = len(text) * 100 + len(lines_a[len(prefix)])
                    if slot is None:
                        res["violations"][cls] = {"text": txt, "case": case, "count": 1, "size": size}
                    else:
                        slot["count"] += 1
                        if size < slot["size"]:
                            slot.update(text=txt, case=case, size=size)
            # ---- bad requests in any order, mixed with valid ones: all individually well-handled cases in one session
            if passed and task.get("mixed", True):
                rng = random.Random(crc("c15mix", task["seed"], origin, version))
                # out-of-range assignments are judged by their own contract (known finding accepted:*-out-of-range-value:
                # the assignment overwrites the option's previous user value).  Alone the effect can be masked by
                # clamping and only show after a later request moved the range, so such lines would make the twin
                # comparison of the mix report that same known defect under another name: they are left out of the mix.
                # The same holds for requests whose offending-ness depends on the state they were built against
                # (`set` of an option that was invisible then): in the mix an earlier line may have made the option
                # visible, the assignment is then a valid one and the twin without it is no longer the right oracle.
                # Value-level cases (`<type>-<what>-value`) are judged one by one only: whether such an assignment is
                # offending, and whether its effect shows, depends on the ranges / visibility at that moment (the
                # co-change of the case can clamp the option so that an overwritten user value only shows after a later
                # line moved the range again) -- in the mix that would re-report the known findings accepted:*-value
                # under another name.  The mix composes the request-structure cases (versions, non-objects, set / reset /
                # load / save of the wrong shape, unknown names), whose offending part is the same in every state.
                order = [c for c in passed if not c["kind"].endswith("-value") and c["kind"] != "set-invisible-option"]
                rng.shuffle(order)
                order = order[: task.get("mixed_len", 40)]
                la, lb = [_line(p) for p in prefix], [_line(p) for p in prefix]
                for j, c in enumerate(order):
                    la.append(_line(c["bad"]))
                    if c["clean"] is not None:
                        lb.append(_line(c["clean"]))
                    if j % 5 == 4:
                        la.append(_line(probe))
                        lb.append(_line(probe))
                la += [_line(t) for t in tail]
                lb += [_line(t) for t in tail]
                # judge_twin looks at ONE offending reply; for the mix only the whole-state equality and the line
                # counts are checked (bad_index = first offending line, require_error off)
                case = dict(base, version=version, kind="mixed-sequence", lines_a=la, lines_b=lb, bad_index=len(prefix), clean_sent=False,
                            mentions=[""], require_error=False)
                r = judge_twin(work, case)
                res["evals"] += 1
                res["nontrivial"] += 1
                for cls, txt in r["violations"]:
                    if cls not in res["violations"]:
                        res["violations"][cls] = {"text": txt, "case": case, "count": 1, "size": 10 ** 9}
                    else:
                        res["violations"][cls]["count"] += 1
                if task.get("subprocess"):
                    sub = _subprocess_session(work, dict(base, version=version), la)
                    res["evals"] += 1
                    # main() does not hand --version to run_server(): the real process always starts with protocol 3
                    inproc_out, _e, _s2 = session(os.path.join(work, "a"), dict(base, version=3), la)
                    for cls, txt in sub["violations"]:
                        res["violations"].setdefault(cls, {"text": txt, "case": None, "count": 0, "size": 10 ** 9})["count"] += 1
                    if not sub["violations"] and sub["stdout"] != inproc_out:
                        sl, il = sub["stdout"].split("\n"), inproc_out.split("\n")
                        j = 0
                        while j < min(len(sl), len(il)) and sl[j] == il[j]:
                            j += 1
                        res["error"] = ("in-process harness and real process disagree on %s v%d at stdout line %d (request %s):\nprocess:    %r\nin-process: %r"
                                        % (origin, version, j, la[j - 1] if 0 < j <= len(la) else "-", sl[j:j + 1], il[j:j + 1]))
            gen.reset_library_report()
    except Exception:  # noqa: BLE001
        res["error"] = "%s\n%s" % (task.get("origin"), traceback.format_exc())
    res["seconds"] = time.time() - t0
    return res


def _subprocess_session(work, case, lines):
    """The real process `python -m kconfserver`: stdout (file descriptor 1) must carry exactly one JSON object line
    per request line plus the initial message and nothing else; exit status 0 at end of input."""
    d = os.path.join(work, "sub")
    materialize(d, case)
    env = dict(os.environ)
    env["PYTHONPATH"] = REPO
    env["KCONFIG_PARSER_VERSION"] = str(case.get("parser", 1))
    cmd = [sys.executable, "-m", "kconfserver", "--kconfig", "Kconfig", "--config", "sdkconfig", "--version", str(case["version"])]
    res = {"violations": [], "stdout": ""}
    try:
        p = subprocess.run(cmd, input="".join(line + "\n" for line in lines).encode("utf-8"), stdout=subprocess.PIPE, stderr=subprocess.PIPE,
                           cwd=d, env=env, timeout=120)
    except subprocess.TimeoutExpired:
        res["violations"].append(("process:timeout", "python -m kconfserver did not finish within 120 s"))
        return res
    out = p.stdout.decode("utf-8", "replace")
    res["stdout"] = out
    objs, complete = split_replies(out)
    if p.returncode != 0:
        res["violations"].append(("process:exit-status", "exit status %d, stderr tail %r" % (p.returncode, p.stderr.decode("utf-8", "replace")[-400:])))
    elif any(o is None for o in objs) or not complete:
        res["violations"].append(("process:stdout-not-json", "stdout of the real process carries non-protocol text: %r" % out[-400:]))
    elif len(objs) != len(lines) + 1:
        res["violations"].append(("process:reply-count", "%d request lines, %d stdout lines" % (len(lines), len(objs))))
    return res


# =====================================================================================================================
# run()
# =====================================================================================================================

TIERS = {
    # count: random trees of the corpus; hist: random histories per (tree, version); len: requests per history
    "quick": {"count": 60, "fx_hist": 14, "small_hist": 2, "rnd_hist": 4, "len": 5, "small_len": 4, "c15_small_step": 9, "c15_random": 12},
    "thorough": {"count": 400, "fx_hist": 80, "small_hist": 8, "rnd_hist": 12, "len": 7, "small_len": 5, "c15_small_step": 1, "c15_random": 120},
}


def _minimize_c14(case, cls, budget=40):
    """Greedy shrinking of a violating history (drop one request at a time while the same class still shows)."""
    work = tempfile.mkdtemp(prefix="drvsrvmin")
    try:
        reqs = list(case["requests"])
        i = 0
        while i < len(reqs) and budget > 0:
            trial = reqs[:i] + reqs[i + 1:]
            if not trial:
                break
            budget -= 1
            r = check_history(os.path.join(work, "w"), dict(case, requests=trial))
            if any(c == cls for c, _t in r["violations"]):
                reqs = trial
            else:
                i += 1
        # cut everything after the first checkpoint at which the class shows
        r = check_history(os.path.join(work, "w"), dict(case, requests=reqs))
        texts = [t for c, t in r["violations"] if c == cls]
        out = dict(case, requests=reqs)
        used = set(re.findall(r"\b(ext\d|ck\d+)\b", json.dumps(reqs)))
        out["files"] = dict((k, v) for k, v in case.get("files", {}).items() if k in used)
        if case.get("sdk0"):
            r2 = check_history(os.path.join(work, "w"), dict(out, sdk0=""))
            if any(c == cls for c, _t in r2["violations"]):
                out["sdk0"] = ""
                texts = [t for c, t in r2["violations"] if c == cls]
        return out, (texts[0] if texts else None)
    finally:
        shutil.rmtree(work, ignore_errors=True)


def _tasks_c14(tier, seed):
    cfg = TIERS[tier]
    tasks = []
    for origin, text, scripts in FIXTURES_C14:
        tasks.append({"origin": origin, "text": text, "rename": "", "parser": 1, "versions": (3, 2, 1), "n_hist": cfg["fx_hist"], "hist_len": cfg["len"] + 1,
                      "seed": seed, "scripts": scripts})
        tasks.append({"origin": origin + ":parser2", "text": text, "rename": "", "parser": 2, "versions": (3,), "n_hist": 2, "hist_len": cfg["len"],
                      "seed": seed, "scripts": scripts})
    specs = gen.corpus(seed, cfg["count"])
    for i, spec in enumerate(specs):
        small = spec.origin.startswith("small")
        tasks.append({"origin": spec.origin, "text": spec.text, "rename": spec.rename_text, "parser": 2 if i % 4 == 3 else 1, "versions": (3, 2, 1),
                      "n_hist": cfg["small_hist"] if small else cfg["rnd_hist"], "hist_len": cfg["small_len"] if small else cfg["len"], "seed": seed})
    return tasks


def _tasks_c15(tier, seed):
    cfg = TIERS[tier]
    tasks = [{"origin": FIXTURE_C15[0], "text": FIXTURE_C15[1], "rename": "", "parser": 1, "versions": (3, 2, 1), "seed": seed, "subprocess": True},
             {"origin": FIXTURE_C15[0] + ":parser2", "text": FIXTURE_C15[1], "rename": "", "parser": 2, "versions": (3,), "seed": seed}]
    for origin, text, _s in FIXTURES_C14:
        tasks.append({"origin": origin, "text": text, "rename": "", "parser": 1, "versions": (3,), "seed": seed})
    specs = gen.corpus(seed, cfg["c15_random"])
    smalls = [s for s in specs if s.origin.startswith("small")]
    rnds = [s for s in specs if not s.origin.startswith("small")]
    step = cfg["c15_small_step"]
    chosen = [s for i, s in enumerate(smalls) if i % step == seed % step] + rnds
    for i, spec in enumerate(chosen):
        tasks.append({"origin": spec.origin, "text": spec.text, "rename": spec.rename_text, "parser": 1, "versions": ((3, 2, 1)[i % 3],), "seed": seed})
    return tasks


_BOUND = {
    "C14": ("real kconfserver.core.run_server(), in-process, protocol versions 1, 2, 3.  Trees: {nfx} hand-written fixtures (set T=v if FORCE and set "
            "default with a user value on the target, set T=SYM, symbol-valued range bounds for int/hex/float with user values on the ranged option, "
            "numeric options without any value (JSON null) incl. a promptless one, conditional ranges that become inactive, nested menus with depends on "
            "/ visible if, menuconfig, promptless-only menu, prompt-if options, select/imply, named and unnamed choices with conditional member prompt, "
            "options defined twice, comparison conditions, load of a checkpoint over a user-made choice pick; each also once under parser 2) + rtc.gen corpus(seed, {count}) = all {nsmall} small_trees(2) "
            "and {count} random trees of <= 6 options (every 4th under KCONFIG_PARSER_VERSION=2), rename files where generated.  Histories: per fixture "
            "1 scripted history + {fx} random ones per version, {sh} per small tree, {rh} per random tree; {ln}/{sl} requests each: set of 1-3 options "
            "(documented JSON types; values = literals of the tree +-1, so in and out of range; invisible and unknown targets), reset of symbols / menu "
            "ids / all / unknown names (v3; error path in v1/v2), load of null / an earlier checkpoint / two generated external files, combined "
            "load+set, set+reset, set+save; every third history starts from a non-empty sdkconfig.  A checkpoint `save` to a new file follows a request "
            "with probability 0.8 (always after the last)."),
    "C15": ("real kconfserver.core.run_server(), in-process twin sessions (prefix that gives every visible non-bool option a user value, ONE offending "
            "line, a valid probe set, save to a file, save null), protocol versions 1-3.  Trees: the all-types fixture (bool/int/hex/string/float with and "
            "without ranges, valueless int, invisible and promptless options, menu, choice; v1, v2, v3 and once under parser 2), the {nfx} C14 fixtures "
            "(v3), {nsmall} of the small_trees(2) and {count} random trees of corpus(seed, {count}) (versions rotating).  Offending lines per tree: for "
            "EVERY visible option every wrong JSON type (bool: 0/1/0.0/1.0/-0.0/\"y\"/\"true\"/\"\"/null/list/object/2/11; int: digit string/\"abc\"/\"\"/7.0/7.5/1e30/"
            "true/null/list/object; hex: float/true/false/null/list/object, bad digits, negative; string: number/bool/null/list/object; float: string/"
            "bool/null/list/object/NaN/Infinity), out-of-range values for every active range, unknown / empty / invisible option names, 8 names with "
            "markup brackets in set and reset, non-dict set (8 shapes), non-list reset (7), non-string reset items (6), unknown menu ids, reset in v1/v2, "
            "non-string load/save (5 each), unreadable (missing, directory, empty name, bracket names, undecodable bytes) and unwritable (missing "
            "directory, parent is a file, empty, bracket names) paths, missing / unsupported (0, 4, 777, -1, 1e308, 10**30, 2.5) / non-numeric (string, "
            "null, list, object, true) versions, an unsupported version carrying load+set+save, 11 malformed JSON lines, 12 non-object JSON lines.  Plus "
            "per (tree, version) one mixed session of up to 40 individually well-handled offending lines in seed-shuffled order interleaved with valid "
            "probes, and for the all-types fixture the same mixed session through the real process `python -m kconfserver` (3 processes)."),
}


def run(prop, tier="quick", seed=0, jobs=16):
    t0 = time.time()
    result = {"name": NAME, "property": prop, "kind": "bounded", "status": "ok", "bound": "", "rule": "", "contracts": [], "evaluations": 0,
              "distinct_nontrivial": 0, "samples": [], "violations": [], "seconds": 0.0}
    try:
        if prop not in PROPERTIES:
            raise ValueError("unknown property %r" % prop)
        if tier not in TIERS:
            raise ValueError("unknown tier %r" % tier)
        loaded = os.path.realpath(os.path.dirname(os.path.dirname(SRV.__file__)))
        if loaded != os.path.realpath(REPO):
            raise RuntimeError("kconfserver imported from %s, not from PYVC_REPO=%s" % (loaded, REPO))
        gen.scrub_env()
        _prime_logger()
        cfg = TIERS[tier]
        tasks = _tasks_c14(tier, seed) if prop == "C14" else _tasks_c15(tier, seed)
        worker = _c14_tree if prop == "C14" else _c15_tree
        gen.silence_library_log()  # again: the first Kconfig() (corpus validation) resets the logger's verbosity
        nsmall = sum(1 for t in tasks if t["origin"].startswith("small"))
        # long tasks first
        order = sorted(range(len(tasks)), key=lambda i: (0 if tasks[i]["origin"].startswith("fx") else 1, i))
        ctx = multiprocessing.get_context("fork")
        _WORK["root"] = tempfile.mkdtemp(prefix="drvsrv")
        merged = {}
        try:
            with ctx.Pool(max(1, int(jobs)), initializer=_worker_init) as pool:
                partial = pool.map(worker, [tasks[i] for i in order], chunksize=1)
                _merge(partial, merged)
                if prop == "C14":
                    todo = [cls for cls in sorted(merged) if merged[cls]["case"] is not None and merged[cls]["case"].get("requests")]
                    for cls, (small, text) in zip(todo, pool.map(_minimize_task, [(merged[cls]["case"], cls) for cls in todo], chunksize=1)):
                        if text:
                            merged[cls].update(case=small, text=text)
        finally:
            shutil.rmtree(_WORK["root"], ignore_errors=True)
            _WORK["root"] = None
        errors = []
        kinds = {}
        for r in partial:
            if r.get("error"):
                errors.append(r["error"])
            result["evaluations"] += r["evals"]
            result["distinct_nontrivial"] += r["nontrivial"]
            for s in r["samples"]:
                if len(result["samples"]) < 5:
                    result["samples"].append(s)
            for k, n in r.get("kinds", {}).items():
                kinds[k] = kinds.get(k, 0) + n
        if errors:
            result["status"] = "checker_error"
            result["reason"] = errors[0][-3000:]
        for cls in sorted(merged):
            slot = merged[cls]
            case, text = slot["case"], slot["text"]
            script = make_script(prop, cls, _script_case(case)) if case is not None else ""
            contract = ("run_server request loop: client state == state reported by a newly started server on the saved file" if prop == "C14"
                        else "run_server request loop: one JSON reply per line, offending part reported, state == twin without the offending part")
            result["violations"].append({"case_class": cls, "contract": contract,
                                         "detail": "%s [%d case(s) of this class; tree %s]" % (text, slot["count"], (case or {}).get("origin", "?")),
                                         "script": script})
        if prop == "C14":
            result["bound"] = _BOUND["C14"].format(nfx=len(FIXTURES_C14), count=cfg["count"], nsmall=nsmall, fx=cfg["fx_hist"], sh=cfg["small_hist"],
                                                   rh=cfg["rnd_hist"], ln=cfg["len"], sl=cfg["small_len"])
            result["rule"] = ("fixtures, scripted histories and small_trees are fixed; the seed selects the random trees (corpus(seed, count)) and seeds every "
                              "random history through crc32(seed, tree, version, history index)")
            result["contracts"] = [
                "kconfserver.core.run_server (request loop, v2/v3): after every reply sequence ending in a save, values/ranges/visible/defaults of the model "
                "client == initial message of a newly started server (same version) on the saved file; a values/ranges entry absent from the fresh state "
                "is tolerated only if the client's visible map says false for it",
                "kconfserver.core.run_server (request loop, v1): on the options a fresh v2 server reports visible, the client's values and ranges == "
                "initial message of a fresh v1 server on the saved file",
                "kconfserver.core.run_server: exactly one JSON object line per request line, no exception leaves the loop for requests with documented types, "
                "a save to a fresh file name succeeds",
            ]
        else:
            result["bound"] = _BOUND["C15"].format(nfx=len(FIXTURES_C14), count=cfg["c15_random"], nsmall=nsmall)
            result["rule"] = ("offending lines are enumerated exhaustively per (tree, version) from the tables in c15_cases(); the seed selects the random trees, "
                              "which small trees are taken (every %d-th) and the order of the mixed session; kinds exercised: %s"
                              % (cfg["c15_small_step"], ", ".join("%s x%d" % kv for kv in sorted(kinds.items()))))
            result["contracts"] = [
                "kconfserver.core.run_server: for every input line exactly one JSON object line on stdout, no exception leaves the loop (the process keeps serving: "
                "the probe and the two saves after the offending line are answered)",
                "kconfserver.core.run_server: the reply to an offending line carries a non-empty error list of strings that mentions the offending part (option "
                "name, path, menu id, 'version', 'set', ...); value-level problems may instead be ignored silently",
                "kconfserver.core.run_server / handle_set / handle_reset / handle_request: model client state and every file of the working directory (incl. "
                "the target of a final save null) == those of a twin server that got the session without the offending part; a silent difference is class "
                "accepted:<kind>",
                "python -m kconfserver (real process): stdout is protocol JSON only, exit status 0, byte-identical to the in-process harness",
            ]
    except Exception:  # noqa: BLE001
        result["status"] = "checker_error"
        result["reason"] = traceback.format_exc()[-3000:]
    result["seconds"] = round(time.time() - t0, 2)
    return result


def _merge(partial, merged):
    for r in partial:
        for cls, slot in r["violations"].items():
            m = merged.get(cls)
            if m is None:
                merged[cls] = dict(slot)
            else:
                m["count"] += slot["count"]
                if slot.get("size", 10 ** 9) < m.get("size", 10 ** 9):
                    m.update(text=slot["text"], case=slot["case"], size=slot["size"])


def _minimize_task(arg):
    try:
        return _minimize_c14(arg[0], arg[1])
    except Exception:  # noqa: BLE001 - keep the unminimized case
        return arg[0], None


def _prime_logger():
    """The first Kconfig() of a process installs the library's own logger at normal verbosity; do that now and
    silence it afterwards (notes / warnings only; log.err and log.print(file=...) of the server still render)."""
    d = tempfile.mkdtemp(prefix="drvsrvp")
    try:
        with open(os.path.join(d, "Kconfig"), "w") as f:
            f.write(_MM)
        with gen.controlled_env():
            _KCORE.Kconfig(os.path.join(d, "Kconfig"))
    finally:
        shutil.rmtree(d, ignore_errors=True)
    gen.silence_library_log()


def _script_case(case):
    keep = ("text", "rename", "parser", "version", "requests", "files", "dirs", "sdk0", "sorts", "kind", "lines_a", "lines_b", "bad_index", "clean_sent",
            "mentions", "require_error", "origin")
    return dict((k, case[k]) for k in keep if k in case)


def main(argv=None):
    argv = list(sys.argv[1:] if argv is None else argv)
    prop = argv[0] if argv else "C14"
    tier = argv[1] if len(argv) > 1 else "quick"
    seed = int(argv[2]) if len(argv) > 2 else 0
    jobs = int(argv[3]) if len(argv) > 3 else 16
    res = run(prop, tier, seed, jobs)
    json.dump(res, sys.stdout, indent=1, sort_keys=True)
    sys.stdout.write("\n")
    return 0 if res["status"] == "ok" else 2


if __name__ == "__main__":
    sys.exit(main())
