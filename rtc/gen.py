"""
rtc.gen -- deterministic generator of small, WELL-FORMED Kconfig trees and
operation histories for the run-time-contract ("bounded stand-in") drivers.

Everything in here is pure stdlib + the project under test (``/repo``, imported
as ``esp_kconfiglib.core``).  Nothing under ``/repo`` is modified, no files are
left behind (``tempfile.TemporaryDirectory`` everywhere) and there is no module
level mutable state: every function is a pure function of its arguments (and,
for the random ones, of the ``random.Random`` instance handed in).


STATED BOUND (quote this in evidence files)
===========================================

Trees
-----
``gen_tree(rng, n_syms, features)`` draws ONE Kconfig file (no ``source``) with
``ceil(n_syms/2) .. n_syms`` options named ``<L><i>`` (``L`` a letter from ``GHJKLMPQRSTUVWXZ``
so that no name is a valid hexadecimal number, ``i`` the option index in file
order, e.g. ``G0 H1 J2``) from the following grammar.  Every alternative can be
switched on/off through ``features`` (a set of the tags listed in
``ALL_FEATURES``; default ``DEFAULT_FEATURES`` = everything accepted by both
parsers of the unchanged library):

* option types ``bool int hex string float`` (tags = the type names);
* entry kinds ``config`` and ``menuconfig`` (any type; a bool menuconfig is
  followed by 0..2 options that ``depends on`` it);
* prompts: inline after the type or with the ``prompt`` keyword, unconditional
  or ``if <cond>``; promptless options; optional ``help`` and ``warning``;
* ``depends on <cond>`` (0..2 lines); enclosing ``if <cond> ... endif`` blocks;
  ``menu`` with ``depends on`` and/or ``visible if``, menus nested up to depth 3;
  ``comment`` with optional ``depends on``;
* ``default`` lines: 0..3 per option, conditional ones first, literal operands
  and symbol operands of the same type (``default H1``), for bool also ``!SYM``;
* ``range`` lines for int/hex/float: 0..2 per option, conditional, literal
  bounds (always low <= high), symbolic bounds (``range MIN_SYM MAX_SYM``) and
  mixed;
* ``select T [if c]``, ``imply T`` (bool source, bool non-choice target);
* ``set T=v [if c]`` and ``set default T=v [if c]`` from a bool source to an
  int/hex/string/float target, ``v`` a literal of the target type or an option
  of the target type (``set S=OTHER_STRING``);
* ``choice`` blocks (named or unnamed) with 1..3 bool members, optional prompt
  condition, 0..2 ``default MEMBER [if c]`` lines (MEMBER always a member of
  that choice), optional ``depends on``; members with conditional prompts
  (``bool "b" if P``) and members with ``depends on``; members may be the
  source (never the target) of select/imply/set;
* an option defined at two locations: the second definition sits in its own
  top-level menu at the end of the file (menu optionally ``depends on``), with
  or without a prompt, with its own defaults/ranges; optionally the first
  definition carries ``# ignore: multiple-definition``;
* conditions: ``A``, ``!A``, ``A = y``, ``A = B`` / ``A != B`` (same type),
  ``X < 5`` (all six relations, int/hex/float literal of the operand's type),
  ``S = "text"`` / ``S != "text"``, ``A && B``, ``A || !B``,
  ``(A || B) && C``;
* string literals from ``STR_LITS``: plain, empty, with a space, with quotes,
  with backslashes, with ``#``, all of them at once, with ``'``, and ``"y"``;
* hex literals with ``0x``/``0X`` prefix and bare, upper and lower case
  (``0x10 0xAB 0xab 0XFF ff AB 10 0x0 7``);
* float literals ``1 1.50 1e3 -2.5 0.0 3.14 2E2 -0.5 10.0``;
* int literals ``0 1 5 42 -3 100 -10 7``;
* optionally (tag ``rename``) an ``sdkconfig.rename`` file with 1..3 lines
  ``CONFIG_OLD_x CONFIG_NEW``, including inverted ``!CONFIG_NEW`` for bool
  options and two aliases for one option.

Acyclicity is guaranteed by construction: every condition / default operand /
range operand / set value of option ``i`` (and of the containers opened in front
of it, and of its second definition) only mentions options with index ``< i``
(for choice members: ``<`` the index of the first member of the choice), and
``select``/``imply``/``set``/``set default`` only target options with index
``> i`` that are not choice members.  Literals inside active ranges need not be
in range (clamping is a feature under test).

Every tree returned by ``gen_tree`` has additionally been VALIDATED by loading
it with the real ``Kconfig(...)`` under ``parser_version`` 1 and 2 in a scratch
directory; a draw the library rejects (exception, which includes the
dependency-loop ``KconfigError``) is discarded and the next draw from the same
``rng`` is used.  Rejected draws are kept in ``TreeSpec.rejects`` of the tree
finally returned so that a systematic rejection cannot go unnoticed.

``small_trees(max_syms)`` is a fixed, rng-free enumeration of tiny trees
(1..3 options, filtered by ``max_syms``) built from single-feature fragments:
every type x {prompt, promptless} x {no default, literal defaults}, every range
form, every literal in the literal tables, and for every feature in the list
above at least two tiny trees.  ``corpus(seed, count, n_syms)`` =
``small_trees(2)`` followed by ``count`` trees ``gen_tree(Random(seed*1000003+i),
n_syms)``.

Histories
---------
``gen_ops(rng, kconf, spec, length)`` draws ``length`` operations from

* ``("set", name, value)``  -- ``Symbol.set_value(value)``; values valid for the
  type (for numeric types: every literal range bound of the option and bound
  +-1, so in range and out of range) and malformed ones (``VALUES`` table);
  bool values are given as ``"y"``/``"n"``/``2``/``0`` and invalid ``"m"``,
  ``"foo"``, ``1``, ``""``; non-bool values are always ``str``;
* ``("unset", name)``       -- ``Symbol.unset_value()``;
* ``("reset", name)``       -- ``core._restore_default(sym.nodes[0])``;
* ``("pick", member)``      -- ``member.set_value(2)`` on a choice member;
* ``("choice_unset", key)`` -- ``Choice.unset_value()``, ``key`` as in
  ``choice_key``.

All of these are legal uses of the public API (plus the one internal helper the
menuconfig/server front ends use for "reset"), so ``apply_op`` catches nothing:
an exception is a finding.

Features that one of the parsers rejects, that crash the unchanged library or
on which the two parsers silently disagree are NOT generated by default; they
are behind the tags in ``OFF_BY_DEFAULT`` and documented with a reproduction in
``KNOWN_REJECTED``.
"""

import contextlib
import os
import random
import sys
import tempfile
import time

if "/repo" not in sys.path:
    sys.path.insert(0, "/repo")

import esp_kconfiglib.core as K  # noqa: E402

# --------------------------------------------------------------------------
# Findings: constructs of the requested grammar that are not generated by
# default, each with the exact failing snippet (prefix every snippet with
# 'mainmenu "T"\n\n' to reproduce) and the observed behaviour on the unchanged
# library.
# --------------------------------------------------------------------------

_REPRO_PREFIX = 'mainmenu "T"\n\n'

KNOWN_REJECTED = [
    {
        "feature": "imply_cond",
        "kind": "crash (parser 2 only)",
        "snippet": (
            'config G0\n    bool "g0"\n    default y\n\n'
            'config M5\n    bool "m"\n    imply Q8 if G0\n\n'
            'config Q8\n    bool "q8"\n'
        ),
        "parser_1": "accepted",
        "parser_2": (
            "AttributeError: 'str' object has no attribute 'is_constant' (core._depend_on via "
            "Kconfig._build_dep): Parser.parse_options stores infix_to_prefix(imply[1]) without "
            "kconfigize_expr, so ANY 'imply X if <cond>' leaves raw strings in weak_rev_dep"
        ),
    },
    {
        "feature": "setdef_hex_sym",
        "kind": "crash (both parsers)",
        "snippet": (
            'config J3\n    hex "j3"\n    default 0x10\n\n'
            'config M5\n    bool "m"\n    default y\n    set default R9=J3\n\n'
            'config R9\n    hex "r9"\n    default 0x1\n'
        ),
        "parser_1": "TypeError: 'Symbol' object cannot be interpreted as an integer (on first read of R9.str_value)",
        "parser_2": "TypeError: 'Symbol' object cannot be interpreted as an integer (on first read of R9.str_value)",
        "note": (
            "Symbol.str_value, weak_rev_values branch for int/hex: the 'not a valid base n number' note calls "
            "num2str(candidate_val) with the Symbol itself; hex(Symbol) raises.  Any 'set default HEX=<operand "
            "whose NAME is not a hex number>' with an active condition crashes; 'set HEX=SYM' (strong) only notes."
        ),
    },
    {
        "feature": "hex_digit_lead_bare",
        "kind": "rejected (parser 2 only)",
        "snippet": 'config R9\n    hex "r9"\n    default 1f\n',
        "parser_1": "accepted, R9 = 1f",
        "parser_2": (
            "KconfigParseError: invalid 'default' value: Expected end of text, found 'f' -- a bare hex literal "
            "that starts with a digit and contains a letter is not one token for parser 2 (same in range, "
            "set and conditions: 'range 0 1f', 'set R9=1f', 'default y if J3 < 1f')"
        ),
    },
    {
        "feature": "float_dec_exp",
        "kind": "rejected (parser 2 only)",
        "snippet": 'config R9\n    float "r9"\n    default 1.5e-3\n',
        "parser_1": "accepted, R9 = 0.0015",
        "parser_2": (
            "KconfigParseError: invalid 'default' value: Expected end of text, found 'e' -- the version "
            "alternative \\d+(\\.\\d+){1,2} of symbol_regex wins over the float alternative (also '.5' and '5.' "
            "are parser-1-only)"
        ),
    },
    {
        "feature": "str_quote_then_hash",
        "kind": "rejected (parser 2 only)",
        "snippet": 'config R9\n    string "r9"\n    default "a\\"#b"\n',
        "parser_1": 'accepted, R9 = a"#b',
        "parser_2": (
            "KconfigParseError: invalid 'default' value -- KconfigGrammar.preprocess_file strips inline comments "
            "by toggling on every quote character and ignores backslash escapes, so a '#' after an odd number of "
            "escaped quotes truncates the line"
        ),
    },
    {
        "feature": "str_if_word",
        "kind": "rejected (parser 2 only)",
        "snippet": 'config R9\n    string "r9"\n    default "x if y"\n',
        "parser_1": "accepted, R9 = x if y",
        "parser_2": (
            "KconfigParseError: invalid 'default' value -- KconfigOptionBlock splits the line on whitespace and "
            "treats the first bare token 'if' as the condition keyword, also inside a quoted string"
        ),
    },
    {
        "feature": "str_multispace",
        "kind": "silent divergence between parsers",
        "snippet": 'config R9\n    string "r9"\n    default "a  b"\n',
        "parser_1": "accepted, R9 = 'a  b' (two spaces)",
        "parser_2": "accepted, R9 = 'a b' (runs of whitespace, and tabs, inside string literals collapse to one space)",
    },
]

# Accepted by both parsers but outside the documented language: language.rst
# restricts set/set default targets to int/hex/string/float.  'set BOOL=y'
# loads and has no effect.
OUTSIDE_LANGUAGE = ["set_bool"]

TYPES = ("bool", "int", "hex", "string", "float")

OFF_BY_DEFAULT = tuple(e["feature"] for e in KNOWN_REJECTED) + tuple(OUTSIDE_LANGUAGE)

ALL_FEATURES = TYPES + (
    "prompt_if", "prompt_keyword", "promptless", "help", "warning",
    "depends_on", "if_block", "menu", "menu_depends", "menu_visible_if", "menu_nested",
    "menuconfig", "comment", "comment_depends",
    "default_literal", "default_sym", "default_cond", "default_multi", "default_not",
    "range_literal", "range_sym", "range_mixed", "range_cond", "range_multi",
    "select", "select_cond", "imply",
    "set", "set_default", "set_cond", "set_sym", "set_sym_num", "member_source",
    "choice", "choice_unnamed", "choice_prompt_if", "choice_default", "choice_default_cond",
    "choice_depends", "choice_member_prompt_if", "choice_member_depends",
    "multi_def", "multi_def_prompt", "multi_def_promptless", "multi_def_menu_depends", "ignore_pragma",
    "cmp_bool_const", "cmp_sym_sym", "cmp_num", "cmp_str", "not", "and", "or_not", "parens",
    "str_empty", "str_space", "str_quote", "str_backslash", "str_hash", "str_squote", "str_y",
    "hex_0x", "hex_bare", "hex_upper", "hex_lower",
    "float_int", "float_trailing_zero", "float_exp", "float_neg",
    "int_neg",
    "rename", "rename_inverted", "rename_two_aliases",
) + OFF_BY_DEFAULT

DEFAULT_FEATURES = frozenset(f for f in ALL_FEATURES if f not in OFF_BY_DEFAULT)

_LETTERS = "GHJKLMPQRSTUVWXZ"

# literal tables: (text as written in Kconfig / value, feature tags)
INT_LITS = (("0", ()), ("1", ()), ("5", ()), ("42", ()), ("-3", ("int_neg",)), ("100", ()), ("-10", ("int_neg",)), ("7", ()))
HEX_LITS = (
    ("0x10", ("hex_0x", "hex_lower")), ("0xAB", ("hex_0x", "hex_upper")), ("0xab", ("hex_0x", "hex_lower")),
    ("0XFF", ("hex_0x", "hex_upper")), ("ff", ("hex_bare", "hex_lower")), ("AB", ("hex_bare", "hex_upper")),
    ("10", ("hex_bare",)), ("0x0", ("hex_0x",)), ("7", ("hex_bare",)),
    ("1f", ("hex_digit_lead_bare",)),
)
FLOAT_LITS = (
    ("1", ("float_int",)), ("1.50", ("float_trailing_zero",)), ("1e3", ("float_exp",)), ("-2.5", ("float_neg",)),
    ("0.0", ()), ("3.14", ()), ("2E2", ("float_exp",)), ("-0.5", ("float_neg",)), ("10.0", ()),
    ("1.5e-3", ("float_dec_exp",)),
)
# raw (unescaped) string values
STR_LITS = (
    ("text", ()), ("abc", ()), ("", ("str_empty",)), ("a b", ("str_space",)), ('say "hi"', ("str_quote", "str_space")),
    ("c:\\dir", ("str_backslash",)), ("end\\", ("str_backslash",)), ("a#b", ("str_hash",)),
    ("a # b", ("str_hash", "str_space")), ('a "q" \\ # x', ("str_quote", "str_backslash", "str_hash", "str_space")),
    ("it's", ("str_squote",)), ("y", ("str_y",)),
    ('a"#b', ("str_quote_then_hash",)), ("x if y", ("str_if_word",)), ("a  b", ("str_multispace",)),
)
_LITS = {"int": INT_LITS, "hex": HEX_LITS, "float": FLOAT_LITS, "string": STR_LITS}
_REL_OPS = ("=", "!=", "<", ">", "<=", ">=")

# values used by ("set", name, value) ops, per type: (valid values, malformed values)
VALUES = {
    "bool": (("y", "n", 2, 0), ("m", "foo", 1, "")),
    "int": (("0", "7", "-3", "42", "100", "5"), ("abc", "", "0x10", "1.5", "12a")),
    "hex": (("0x1F", "ff", "0", "0XA", "0x10", "AB"), ("xyz", "-0x5", "0x", "", "1.5")),
    "float": (("1", "2.50", "-1e2", "0.0", "3.14"), ("abc", "nan", "inf", "1.2.3", "")),
    "string": (("", "hello", "a b", 'q"uote', "back\\slash", "#hash", "y", "it's"), ()),
}

# Environment variables read by esp_kconfiglib (grep os.environ/os.getenv in
# core.py, report.py, constants.py, deprecated.py).  load() removes all of them
# for the duration of the construction (and applies explicit overrides).
ENV_VARS = (
    "KCONFIG_PARSER_VERSION", "srctree", "KCONFIG_WARN_UNDEF_ASSIGN", "CONFIG_", "KCONFIG_DEFAULTS_POLICY",
    "KCONFIG_PROMPTLESS_NO_WARN", "KCONFIG_CONFIG_HEADER", "KCONFIG_AUTOHEADER_HEADER", "KCONFIG_FUNCTIONS",
    "KCONFIG_WARN_UNDEF", "KCONFIG_STRICT", "KCONFIG_AUTOHEADER", "KCONFIG_CONFIG", "KCONFIG_REPORT_VERBOSITY",
    "COMPONENT_SDKCONFIG_RENAMES", "IDF_VERSION",
)


class GenError(Exception):
    """gen_tree could not produce a tree the library accepts within max_attempts draws."""


@contextlib.contextmanager
def controlled_env(overrides=None):
    """
    Context manager: inside the block none of ENV_VARS is set except the ones
    given in 'overrides' (dict name -> str); on exit the previous environment is
    restored exactly.  Kconfig.__init__ copies everything it needs from the
    environment into the instance, so wrapping the construction is sufficient
    for the instance attributes; functions that consult the environment later
    (load_config(None), write_config(None), write_autoconf(None), the header
    builders reading IDF_VERSION) must be called with explicit arguments or
    inside controlled_env() as well.
    """
    saved = {}
    for name in ENV_VARS:
        if name in os.environ:
            saved[name] = os.environ.pop(name)
    applied = []
    try:
        for name in sorted(overrides or {}):
            if name not in ENV_VARS:
                saved.setdefault(name, os.environ.get(name))
            os.environ[name] = overrides[name]
            applied.append(name)
        yield
    finally:
        for name in applied:
            os.environ.pop(name, None)
        for name in sorted(saved):
            if saved[name] is not None:
                os.environ[name] = saved[name]


def scrub_env():
    """Permanently remove all ENV_VARS from os.environ (for driver main()s). Returns the removed dict."""
    removed = {}
    for name in ENV_VARS:
        if name in os.environ:
            removed[name] = os.environ.pop(name)
    return removed


def reset_library_report():
    """
    esp_kconfiglib keeps ONE KconfigReport for the whole process (singleton in
    report.py): records added while parsing / loading one Kconfig instance stay
    visible through every later instance, and its message cache grows without
    bound.  This clears it (no-op before the first Kconfig exists).
    """
    inst = getattr(K.KconfigReport, "_instance", None)
    if inst is not None and getattr(inst, "_initialized", False):
        inst.reset()


def silence_library_log():
    """Best effort: ask esp_pylib's logger to be silent (speeds long runs up). Returns True on success."""
    try:
        from esp_pylib.logger import Verbosity, log

        log.set_verbosity(Verbosity.SILENT)
        return True
    except Exception:
        return False


def kescape(s):
    """Raw string value -> text between the double quotes of a Kconfig string literal."""
    return s.replace("\\", "\\\\").replace('"', '\\"')


class TreeSpec:
    """
    One generated tree.

    text         Kconfig source (a single file, starts with 'mainmenu "T"')
    rename_text  contents of sdkconfig.rename, or ""
    syms         list of dicts, one per option in order of first definition:
                 name, type, index, kind ('config'|'menuconfig'), choice (key of the
                 enclosing choice or None), has_prompt (some definition has a prompt),
                 n_defs (1 or 2), ranges (literal/symbolic range lines of all
                 definitions as (low, high, cond)), features (sorted tags used on it)
    choices      list of dicts: key, name (None if unnamed), index, members (names)
    menus        list of dicts: title, depends, visible_if, depth
    renames      list of (old_name, new_name, inverted) without the CONFIG_ prefix
    features     sorted list of all feature tags present in the tree
    combos       sorted list of "type:feature" strings (option level features)
    rejects      draws discarded by gen_tree before this one: (text, parser_version, error)
    origin       how the tree was made, e.g. "small:range_sym:int" or "random"
    """

    def __init__(self, text, rename_text="", syms=None, choices=None, menus=None, renames=None,
                 features=None, combos=None, origin=""):
        self.text = text
        self.rename_text = rename_text
        self.syms = syms or []
        self.choices = choices or []
        self.menus = menus or []
        self.renames = renames or []
        self.features = features or []
        self.combos = combos or []
        self.rejects = []
        self.origin = origin

    def sym(self, name):
        for s in self.syms:
            if s["name"] == name:
                return s
        raise KeyError(name)

    def write(self, dirpath):
        """Write 'Kconfig' (and 'sdkconfig.rename' if any) into dirpath; return the Kconfig path."""
        path = os.path.join(dirpath, "Kconfig")
        with open(path, "w", encoding="utf-8", newline="\n") as f:
            f.write(self.text)
        if self.rename_text:
            with open(os.path.join(dirpath, "sdkconfig.rename"), "w", encoding="utf-8", newline="\n") as f:
                f.write(self.rename_text)
        return path

    def load(self, dirpath, parser_version=1, env=None, reset_report=True, **kw):
        """
        Write the tree into dirpath and return a fresh K.Kconfig(path,
        parser_version=parser_version, **kw) with the rename file (if any)
        loaded through Kconfig.load_rename_files([path]).

        The construction runs inside controlled_env(env): none of the
        environment variables the library reads (ENV_VARS) leaks in; pass e.g.
        env={"KCONFIG_DEFAULTS_POLICY": "kconfig"} to set one deliberately.
        With reset_report (default) the process-wide KconfigReport singleton of
        the library is cleared first, so report contents/status of the returned
        instance do not depend on earlier instances.
        """
        path = self.write(dirpath)
        if reset_report:
            reset_library_report()
        with controlled_env(env):
            kconf = K.Kconfig(path, parser_version=parser_version, **kw)
            if self.rename_text:
                kconf.load_rename_files([os.path.join(dirpath, "sdkconfig.rename")])
        return kconf

    def validate(self):
        """
        Load the tree with parser 1 and 2 in a scratch directory and evaluate every
        symbol once.  Returns None if both accept it, else (parser_version, error text).
        """
        with tempfile.TemporaryDirectory(prefix="rtcgen") as d:
            for version in (1, 2):
                try:
                    kconf = self.load(d, parser_version=version)
                    if len(kconf.unique_defined_syms) != len(self.syms):
                        return (version, "defined symbols %d != expected %d" % (len(kconf.unique_defined_syms), len(self.syms)))
                    snapshot(kconf)
                except Exception as e:  # noqa: BLE001 - any exception is a rejection
                    return (version, "%s: %s" % (type(e).__name__, e))
        return None

    def __repr__(self):
        return "<TreeSpec %s syms=%d choices=%d menus=%d>" % (self.origin, len(self.syms), len(self.choices), len(self.menus))


# --------------------------------------------------------------------------
# Model and renderer.  A tree is a list of items:
#   ("opt", optdict)
#   ("menu", title, depends|None, visible_if|None, children)
#   ("if", cond, children)
#   ("choice", name|None, prompt, prompt_if|None, depends|None, defaults[(member, cond|None)], children)
#   ("comment", text, depends|None)
# --------------------------------------------------------------------------


def _opt(name, typ, index=0, prompt=None, prompt_if=None, prompt_kw=False, kind="config", depends=(), defaults=(),
         ranges=(), selects=(), implies=(), sets=(), weak_sets=(), help=None, warning=None, pragma=False, feats=()):
    """
    Option model.  defaults: [(operand_text, cond|None)], ranges: [(lo, hi, cond|None)], selects/implies:
    [(target, cond|None)], sets/weak_sets: [(target, value_text, cond|None)].  All texts are final Kconfig text.
    """
    return {
        "name": name, "type": typ, "index": index, "prompt": prompt, "prompt_if": prompt_if, "prompt_kw": prompt_kw,
        "kind": kind, "depends": list(depends), "defaults": list(defaults), "ranges": list(ranges),
        "selects": list(selects), "implies": list(implies), "sets": list(sets), "weak_sets": list(weak_sets),
        "help": help, "warning": warning, "pragma": pragma, "feats": list(feats),
    }


def _if(cond):
    return " if " + cond if cond else ""


def _render_opt(o, ind, out):
    pad = " " * ind
    out.append("%s%s %s%s" % (pad, o["kind"], o["name"], " # ignore: multiple-definition" if o["pragma"] else ""))
    p = pad + "    "
    if o["prompt"] is not None and not o["prompt_kw"]:
        out.append('%s%s "%s"%s' % (p, o["type"], o["prompt"], _if(o["prompt_if"])))
    else:
        out.append("%s%s" % (p, o["type"]))
        if o["prompt"] is not None:
            out.append('%sprompt "%s"%s' % (p, o["prompt"], _if(o["prompt_if"])))
    for d in o["depends"]:
        out.append("%sdepends on %s" % (p, d))
    for lo, hi, c in o["ranges"]:
        out.append("%srange %s %s%s" % (p, lo, hi, _if(c)))
    for v, c in o["defaults"]:
        out.append("%sdefault %s%s" % (p, v, _if(c)))
    for t, c in o["selects"]:
        out.append("%sselect %s%s" % (p, t, _if(c)))
    for t, c in o["implies"]:
        out.append("%simply %s%s" % (p, t, _if(c)))
    for t, v, c in o["sets"]:
        out.append("%sset %s=%s%s" % (p, t, v, _if(c)))
    for t, v, c in o["weak_sets"]:
        out.append("%sset default %s=%s%s" % (p, t, v, _if(c)))
    if o["warning"]:
        out.append('%swarning "%s"' % (p, o["warning"]))
    if o["help"]:
        out.append("%shelp" % p)
        out.append("%s    %s" % (p, o["help"]))
    out.append("")


def _render_items(items, ind, out):
    pad = " " * ind
    for it in items:
        k = it[0]
        if k == "opt":
            _render_opt(it[1], ind, out)
        elif k == "menu":
            out.append('%smenu "%s"' % (pad, it[1]))
            if it[2]:
                out.append("%s    depends on %s" % (pad, it[2]))
            if it[3]:
                out.append("%s    visible if %s" % (pad, it[3]))
            out.append("")
            _render_items(it[4], ind + 4, out)
            out.append("%sendmenu" % pad)
            out.append("")
        elif k == "if":
            out.append("%sif %s" % (pad, it[1]))
            out.append("")
            _render_items(it[2], ind + 4, out)
            out.append("%sendif" % pad)
            out.append("")
        elif k == "choice":
            out.append("%schoice%s" % (pad, " " + it[1] if it[1] else ""))
            out.append('%s    prompt "%s"%s' % (pad, it[2], _if(it[3])))
            if it[4]:
                out.append("%s    depends on %s" % (pad, it[4]))
            for m, c in it[5]:
                out.append("%s    default %s%s" % (pad, m, _if(c)))
            out.append("")
            _render_items(it[6], ind + 4, out)
            out.append("%sendchoice" % pad)
            out.append("")
        elif k == "comment":
            out.append('%scomment "%s"' % (pad, it[1]))
            if it[2]:
                out.append("%s    depends on %s" % (pad, it[2]))
            out.append("")
        else:
            raise ValueError(k)


def choice_key(index, name):
    """Key used for choices in snapshots, user states, specs and ops: 'choice:<index>:<name or empty>'."""
    return "choice:%d:%s" % (index, name or "")


def build_spec(items, renames=(), extra_features=(), origin=""):
    """Render a model (list of items) into a TreeSpec and derive all metadata from the model."""
    out = ['mainmenu "T"', ""]
    _render_items(items, 0, out)
    text = "\n".join(out).rstrip("\n") + "\n"

    syms, choices, menus = [], [], []
    by_name = {}
    feats = list(extra_features)

    def walk(lst, depth, cur_choice):
        for it in lst:
            k = it[0]
            if k == "opt":
                o = it[1]
                rec = by_name.get(o["name"])
                if rec is None:
                    rec = {
                        "name": o["name"], "type": o["type"], "index": len(syms), "kind": o["kind"], "choice": cur_choice,
                        "has_prompt": False, "n_defs": 0, "ranges": [], "features": [],
                    }
                    by_name[o["name"]] = rec
                    syms.append(rec)
                rec["n_defs"] += 1
                rec["has_prompt"] = rec["has_prompt"] or o["prompt"] is not None
                rec["ranges"] += list(o["ranges"])
                rec["features"] += list(o["feats"]) + [o["type"]]
                if cur_choice is not None:
                    choices[-1]["members"].append(o["name"])
            elif k == "menu":
                menus.append({"title": it[1], "depends": it[2], "visible_if": it[3], "depth": depth + 1})
                walk(it[4], depth + 1, cur_choice)
            elif k == "if":
                walk(it[2], depth, cur_choice)
            elif k == "choice":
                key = choice_key(len(choices), it[1])
                choices.append({"key": key, "name": it[1], "index": len(choices), "members": []})
                walk(it[6], depth, key)

    walk(items, 0, None)
    combos = []
    for rec in syms:
        rec["features"] = sorted(set(rec["features"]))
        feats += rec["features"]
        combos += ["%s:%s" % (rec["type"], f) for f in rec["features"] if f != rec["type"]]
    rename_text = ""
    if renames:
        rename_text = "# deprecated names\n" + "".join(
            "CONFIG_%s    %sCONFIG_%s\n" % (old, "!" if inv else "", new) for old, new, inv in renames
        )
    return TreeSpec(
        text, rename_text, syms, choices, menus, [tuple(r) for r in renames],
        sorted(set(feats)), sorted(set(combos)), origin,
    )


# --------------------------------------------------------------------------
# Random generator
# --------------------------------------------------------------------------


def _name(i):
    return _LETTERS[i % len(_LETTERS)] + str(i)


def _numval(typ, text):
    if typ == "int":
        return int(text, 10)
    if typ == "hex":
        return int(text, 16)
    return float(text)


class _Gen:
    """One random draw. All randomness comes from self.rng; tags of used features are collected in self.used."""

    def __init__(self, rng, n, feats):
        self.rng = rng
        self.n = n
        self.f = feats
        self.used = []
        types = [t for t in TYPES if t in feats] or ["bool"]
        self.types = []
        for i in range(n):
            r = rng.random()
            if "bool" in types and r < (0.6 if i == 0 else 0.3):
                self.types.append("bool")
            elif i > 0 and r < 0.6:
                # repeat an earlier type so that same-type operands (default SYM, range MIN MAX, set T=SYM) exist
                self.types.append(self.types[rng.randrange(i)])
            else:
                self.types.append(rng.choice(types))
        self.member_of = [None] * n  # index of first member of the enclosing choice
        self.choice_spans = []
        self._plan_choices()
        self.names = [_name(i) for i in range(n)]

    # -- helpers ---------------------------------------------------------

    def on(self, feat, p=1.0):
        return feat in self.f and (p >= 1.0 or self.rng.random() < p)

    def tag(self, tags, ofeats=None):
        for t in tags:
            self.used.append(t)
            if ofeats is not None:
                ofeats.append(t)

    def _plan_choices(self):
        if "choice" not in self.f or "bool" not in self.f or self.n < 1:
            return
        i = 0
        while i < self.n and len(self.choice_spans) < 2:
            if self.rng.random() < 0.22:
                size = min(self.rng.choice((1, 2, 2, 2, 3, 3)), self.n - i)
                self.choice_spans.append((i, i + size))
                for j in range(i, i + size):
                    self.types[j] = "bool"
                    self.member_of[j] = i
                i += size
            else:
                i += 1

    def _lit(self, typ):
        """(literal text, tags) of the given non-bool type (strings quoted/escaped); respects feature flags."""
        pool = [(t, tags) for t, tags in _LITS[typ] if all(x in self.f for x in tags)]
        if not pool:
            pool = [(_LITS[typ][0][0], ())]
        text, tags = self.rng.choice(pool)
        return (('"%s"' % kescape(text)) if typ == "string" else text), tuple(tags)

    def lit(self, typ, ofeats=None):
        """A literal that is certainly used by the caller: tags are recorded immediately."""
        text, tags = self._lit(typ)
        self.tag(tags, ofeats)
        return text

    def num_pair(self, typ, ofeats=None):
        a = self.lit(typ, ofeats)
        b = self.lit(typ, ofeats)
        if _numval(typ, a) > _numval(typ, b):
            a, b = b, a
        return a, b

    def syms_of(self, typ, limit, exclude=()):
        return [j for j in range(limit) if self.types[j] == typ and j not in exclude]

    def atom(self, limit):
        """(text, tags) of a relational or plain atom over options < limit; None if impossible."""
        rng = self.rng
        j = rng.randrange(limit)
        t = self.types[j]
        nm = self.names[j]
        same = self.syms_of(t, limit, (j,))
        if same and self.on("cmp_sym_sym", 0.25):
            op = rng.choice(("=", "!=")) if t in ("bool", "string") else rng.choice(_REL_OPS)
            return "%s %s %s" % (nm, op, self.names[rng.choice(same)]), ("cmp_sym_sym",)
        if t == "bool":
            if self.on("cmp_bool_const", 0.2):
                return "%s = %s" % (nm, rng.choice("yn")), ("cmp_bool_const",)
            return nm, ()
        if t == "string":
            if "cmp_str" not in self.f:
                return None
            text, tags = self._lit("string")
            return "%s %s %s" % (nm, rng.choice(("=", "!=")), text), ("cmp_str",) + tags
        if "cmp_num" not in self.f:
            return None
        text, tags = self._lit(t)
        return "%s %s %s" % (nm, rng.choice(_REL_OPS), text), ("cmp_num",) + tags

    def cond(self, limit, ofeats=None):
        """A condition over options with index < limit, or None when there is nothing to mention."""
        if limit <= 0:
            return None
        rng = self.rng
        bools = self.syms_of("bool", limit)
        a = self.atom(limit)
        if a is None:
            if not bools:
                return None
            a = (self.names[rng.choice(bools)], ())
        r = rng.random()
        if r < 0.45:
            self.tag(a[1], ofeats)
            return a[0]
        if r < 0.58 and bools and self.on("not"):
            self.tag(("not",), ofeats)
            return "!" + self.names[rng.choice(bools)]
        b = self.atom(limit)
        if b is not None and r < 0.75 and self.on("and"):
            self.tag(("and",) + a[1] + b[1], ofeats)
            return "%s && %s" % (a[0], b[0])
        if r < 0.9 and bools and self.on("or_not"):
            self.tag(("or_not", "not") + a[1], ofeats)
            return "%s || !%s" % (a[0], self.names[rng.choice(bools)])
        if b is not None and self.on("parens") and self.on("and"):
            c = self.atom(limit)
            if c is not None:
                self.tag(("parens", "and") + a[1] + b[1] + c[1], ofeats)
                return "(%s || %s) && %s" % (a[0], b[0], c[0])
        self.tag(a[1], ofeats)
        return a[0]

    # -- option body -----------------------------------------------------

    def value_operand(self, typ, limit, ofeats, exclude=()):
        """Literal or same-type option (< limit) as a default operand."""
        rng = self.rng
        same = self.syms_of(typ, limit, exclude)
        if same and self.on("default_sym", 0.35):
            self.tag(("default_sym",), ofeats)
            nm = self.names[rng.choice(same)]
            if typ == "bool" and self.on("default_not", 0.3):
                self.tag(("default_not",), ofeats)
                return "!" + nm
            return nm
        self.tag(("default_literal",), ofeats)
        if typ == "bool":
            return rng.choice("yyn")
        return self.lit(typ, ofeats)

    def defaults(self, typ, limit, ofeats):
        rng = self.rng
        if rng.random() < 0.25 or not ("default_literal" in self.f or "default_sym" in self.f):
            return []
        n = 1
        if self.on("default_multi", 0.4):
            n = rng.choice((2, 2, 3))
        out = []
        for k in range(n):
            last = k == n - 1
            c = None
            if "default_cond" in self.f and limit > 0 and (not last or rng.random() < 0.3):
                c = self.cond(limit, ofeats)
                if c:
                    self.tag(("default_cond",), ofeats)
            out.append((self.value_operand(typ, limit, ofeats), c))
        if len(out) > 1:
            self.tag(("default_multi",), ofeats)
        return out

    def ranges(self, typ, limit, ofeats):
        rng = self.rng
        if typ not in ("int", "hex", "float") or rng.random() < 0.45:
            return []
        n = 2 if self.on("range_multi", 0.35) else 1
        out = []
        for k in range(n):
            last = k == n - 1
            same = self.syms_of(typ, limit)
            r = rng.random()
            if len(same) >= 1 and r < 0.35 and self.on("range_sym"):
                lo = self.names[rng.choice(same)]
                hi = self.names[rng.choice(same)]
                self.tag(("range_sym",), ofeats)
            elif same and r < 0.6 and self.on("range_mixed"):
                self.tag(("range_mixed",), ofeats)
                if rng.random() < 0.5:
                    lo, hi = self.names[rng.choice(same)], self.lit(typ, ofeats)
                else:
                    lo, hi = self.lit(typ, ofeats), self.names[rng.choice(same)]
            elif self.on("range_literal"):
                lo, hi = self.num_pair(typ, ofeats)
                self.tag(("range_literal",), ofeats)
            else:
                continue
            c = None
            if "range_cond" in self.f and limit > 0 and (not last or n == 1 and rng.random() < 0.3):
                c = self.cond(limit, ofeats)
                if c:
                    self.tag(("range_cond",), ofeats)
            out.append((lo, hi, c))
        if len(out) > 1:
            self.tag(("range_multi",), ofeats)
        return out

    def reverse_props(self, i, limit, o):
        """select / imply / set / set default lines of bool option i (targets have a larger index)."""
        rng = self.rng
        ofeats = o["feats"]
        later = [k for k in range(i + 1, self.n) if self.member_of[k] is None]
        btargets = [k for k in later if self.types[k] == "bool"]
        vtargets = [k for k in later if self.types[k] != "bool"]
        if "set_bool" in self.f:
            vtargets = later
        if btargets and self.on("select", 0.3):
            c = self.cond(limit, ofeats) if self.on("select_cond", 0.5) else None
            if c:
                self.tag(("select_cond",), ofeats)
            self.tag(("select",), ofeats)
            o["selects"].append((self.names[rng.choice(btargets)], c))
        if btargets and self.on("imply", 0.25):
            c = self.cond(limit, ofeats) if self.on("imply_cond", 0.6) else None
            if c:
                self.tag(("imply_cond",), ofeats)
            self.tag(("imply",), ofeats)
            o["implies"].append((self.names[rng.choice(btargets)], c))
        for feat, key in (("set", "sets"), ("set_default", "weak_sets")):
            if not vtargets or not self.on(feat, 0.35):
                continue
            for _ in range(rng.choice((1, 1, 2))):
                k = rng.choice(vtargets)
                t = self.types[k]
                same = self.syms_of(t, k, (i,))
                symfeat = "set_sym" if t == "string" else "set_sym_num"
                if t == "bool":
                    self.tag(("set_bool",), ofeats)
                    v = rng.choice("yn")
                elif same and self.on(symfeat, 0.5) and not (
                    t == "hex" and key == "weak_sets" and "setdef_hex_sym" not in self.f
                ):
                    v = self.names[rng.choice(same)]
                    self.tag((symfeat,), ofeats)
                    if t == "hex" and key == "weak_sets":
                        self.tag(("setdef_hex_sym",), ofeats)
                else:
                    v = self.lit(t, ofeats)
                c = self.cond(limit, ofeats) if self.on("set_cond", 0.5) else None
                if c:
                    self.tag(("set_cond",), ofeats)
                self.tag((feat, "%s_to_%s" % (feat, t)), ofeats)
                o[key].append((self.names[k], v, c))

    def option(self, i, extra_depends=(), in_choice=False):
        rng = self.rng
        typ = self.types[i]
        limit = self.member_of[i] if in_choice else i
        o = _opt(self.names[i], typ, index=i)
        ofeats = o["feats"]
        # prompt
        if in_choice or not self.on("promptless", 0.25):
            o["prompt"] = "p%d" % i if rng.random() < 0.7 else "opt %d" % i
            pif = "choice_member_prompt_if" if in_choice else "prompt_if"
            if self.on(pif, 0.3):
                o["prompt_if"] = self.cond(limit, ofeats)
                if o["prompt_if"]:
                    self.tag((pif,), ofeats)
            if self.on("prompt_keyword", 0.2):
                o["prompt_kw"] = True
                self.tag(("prompt_keyword",), ofeats)
        else:
            self.tag(("promptless",), ofeats)
        # depends on
        o["depends"] = list(extra_depends)
        dep = "choice_member_depends" if in_choice else "depends_on"
        if self.on(dep, 0.3):
            for _ in range(rng.choice((1, 1, 1, 2))):
                c = self.cond(limit, ofeats)
                if c:
                    o["depends"].append(c)
                    self.tag((dep,), ofeats)
        if not in_choice:
            o["defaults"] = self.defaults(typ, limit, ofeats)
            o["ranges"] = self.ranges(typ, limit, ofeats)
        if typ == "bool" and (not in_choice or self.on("member_source", 0.5)):
            before = len(o["selects"]) + len(o["implies"]) + len(o["sets"]) + len(o["weak_sets"])
            self.reverse_props(i, limit, o)
            if in_choice and len(o["selects"]) + len(o["implies"]) + len(o["sets"]) + len(o["weak_sets"]) > before:
                self.tag(("member_source",), ofeats)
        if self.on("help", 0.15):
            o["help"] = "Help text of %s." % o["name"]
            self.tag(("help",), ofeats)
        if not in_choice and self.on("warning", 0.1):
            o["warning"] = "careful with %s" % o["name"]
            self.tag(("warning",), ofeats)
        return o

    # -- structure ---------------------------------------------------------

    def build(self):
        rng = self.rng
        top = []
        stack = [("top", top)]
        opts = {}
        i = 0
        n_menu = n_note = 0
        mc_name, mc_left = None, 0
        while i < self.n:
            # close containers (only non-empty ones exist)
            while len(stack) > 1 and rng.random() < 0.35:
                stack.pop()
            cur = stack[-1][1]
            span = [s for s in self.choice_spans if s[0] == i]
            if span:
                a, b = span[0]
                name = None if self.on("choice_unnamed", 0.3) else "CH%d" % a
                if name is None:
                    self.tag(("choice_unnamed",))
                pif = self.cond(a) if self.on("choice_prompt_if", 0.35) else None
                if pif:
                    self.tag(("choice_prompt_if",))
                dep = self.cond(a) if self.on("choice_depends", 0.2) else None
                if dep:
                    self.tag(("choice_depends",))
                defs = []
                if self.on("choice_default", 0.6):
                    for k in range(rng.choice((1, 1, 2))):
                        c = self.cond(a) if (self.on("choice_default_cond", 0.5) or k == 0 and rng.random() < 0.3) \
                            and "choice_default_cond" in self.f else None
                        if c:
                            self.tag(("choice_default_cond",))
                        defs.append((self.names[rng.randrange(a, b)], c))
                    self.tag(("choice_default",))
                members = []
                for j in range(a, b):
                    o = self.option(j, in_choice=True)
                    opts[j] = o
                    members.append(("opt", o))
                cur.append(("choice", name, "ch %d" % a, pif, dep, defs, members))
                self.tag(("choice",))
                i = b
                mc_left = 0
                continue
            # open containers
            depth = sum(1 for s in stack if s[0] == "menu")
            r = rng.random()
            if r < 0.18 and self.on("menu") and (depth == 0 or (self.on("menu_nested") and depth < 3)):
                dep = self.cond(i) if self.on("menu_depends", 0.4) else None
                vis = self.cond(i) if self.on("menu_visible_if", 0.4) else None
                if dep:
                    self.tag(("menu_depends",))
                if vis:
                    self.tag(("menu_visible_if",))
                if depth > 0:
                    self.tag(("menu_nested",))
                self.tag(("menu",))
                n_menu += 1
                children = []
                cur.append(("menu", "menu %d" % n_menu, dep, vis, children))
                stack.append(("menu", children))
                cur = children
            elif r < 0.30 and self.on("if_block"):
                c = self.cond(i)
                if c:
                    self.tag(("if_block",))
                    children = []
                    cur.append(("if", c, children))
                    stack.append(("if", children))
                    cur = children
            if self.on("comment", 0.12):
                dep = self.cond(i) if self.on("comment_depends", 0.5) else None
                if dep:
                    self.tag(("comment_depends",))
                n_note += 1
                cur.append(("comment", "note %d" % n_note, dep))
                self.tag(("comment",))
            extra = []
            if mc_left > 0:
                extra.append(mc_name)
                mc_left -= 1
            o = self.option(i, extra_depends=extra)
            if o["prompt"] is not None and self.on("menuconfig", 0.15):
                o["kind"] = "menuconfig"
                self.tag(("menuconfig",), o["feats"])
                if o["type"] == "bool":
                    mc_name, mc_left = o["name"], rng.choice((0, 1, 2))
            opts[i] = o
            cur.append(("opt", o))
            i += 1
        # second definitions
        if self.on("multi_def", 0.3):
            cands = [j for j in range(self.n) if self.member_of[j] is None]
            for j in rng.sample(cands, min(len(cands), rng.choice((1, 1, 2)))) if cands else []:
                first = opts[j]
                d = _opt(first["name"], first["type"], index=j)
                df = d["feats"]
                self.tag(("multi_def",), df)
                if self.on("multi_def_prompt", 0.5) or "multi_def_promptless" not in self.f:
                    d["prompt"] = "second %d" % j
                    self.tag(("multi_def_prompt",), df)
                    if self.on("prompt_if", 0.3):
                        d["prompt_if"] = self.cond(j, df)
                else:
                    self.tag(("multi_def_promptless",), df)
                d["defaults"] = self.defaults(first["type"], j, df)
                d["ranges"] = self.ranges(first["type"], j, df)
                if self.on("ignore_pragma", 0.3):
                    first["pragma"] = True
                    self.tag(("ignore_pragma",), df)
                mdep = self.cond(j) if self.on("multi_def_menu_depends", 0.3) else None
                if mdep:
                    self.tag(("multi_def_menu_depends",), df)
                top.append(("menu", "dup %s" % first["name"], mdep, None, [("opt", d)]))
        # rename file
        renames = []
        if self.on("rename", 0.35):
            self.tag(("rename",))
            cands = list(range(self.n))
            j = rng.choice(cands)
            renames.append(("OLD_%s" % self.names[j], self.names[j], False))
            if self.on("rename_two_aliases", 0.4):
                renames.append(("OLD2_%s" % self.names[j], self.names[j], False))
                self.tag(("rename_two_aliases",))
            bools = [k for k in cands if self.types[k] == "bool"]
            if bools and len(renames) < 3 and self.on("rename_inverted", 0.5):
                k = rng.choice(bools)
                renames.append(("OLDINV_%s" % self.names[k], self.names[k], True))
                self.tag(("rename_inverted",))
            elif len(renames) < 3 and rng.random() < 0.4:
                k = rng.choice(cands)
                if k != j:
                    renames.append(("OLD_%s" % self.names[k], self.names[k], False))
        return build_spec(top, renames, self.used, "random")


def gen_tree(rng, n_syms, features=None, validate=True, max_attempts=200):
    """
    Draw one well-formed tree with 1..n_syms options (see the module docstring
    for the grammar).  'features' is the set of enabled feature tags (default
    DEFAULT_FEATURES; e.g. DEFAULT_FEATURES - {"choice"} or DEFAULT_FEATURES |
    {"imply_cond"}).  With validate (default) the tree is loaded with both
    parser versions in a scratch directory and draws the library rejects are
    skipped (they are listed in the returned spec's .rejects); GenError after
    max_attempts consecutive rejections.  Deterministic in the state of rng.
    """
    feats = DEFAULT_FEATURES if features is None else frozenset(features)
    unknown = sorted(f for f in feats if f not in ALL_FEATURES)
    if unknown:
        raise ValueError("unknown feature tags: %s" % ", ".join(unknown))
    rejects = []
    for _ in range(max_attempts):
        n = rng.randint(max(1, (n_syms + 1) // 2), max(1, n_syms))
        spec = _Gen(rng, n, feats).build()
        err = spec.validate() if validate else None
        if err is None:
            spec.rejects = rejects
            return spec
        rejects.append((spec.text, err[0], err[1]))
    raise GenError("no acceptable tree in %d draws; last error: parser %s: %s" % (max_attempts, rejects[-1][1], rejects[-1][2]))


# --------------------------------------------------------------------------
# Observation helpers
# --------------------------------------------------------------------------


def find_choice(kconf, key):
    """Choice object for a choice_key() string (index into kconf.unique_choices, name checked)."""
    _, idx, name = key.split(":", 2)
    ch = kconf.unique_choices[int(idx)]
    if (ch.name or "") != name:
        raise KeyError(key)
    return ch


def _read_sym(sym, reverse):
    if not reverse:
        sv = sym.str_value
        vis = sym.visibility
        asg = sym.assignable
        cs = sym.config_string
    else:
        cs = sym.config_string
        asg = sym.assignable
        vis = sym.visibility
        sv = sym.str_value
    # _write_to_conf is only defined after the value has been computed, so it is always read last
    return (sv, vis, tuple(asg), cs, bool(sym._write_to_conf))


def snapshot(kconf):
    """
    dict: for every defined symbol (kconf.unique_defined_syms order) name ->
    (str_value, visibility, assignable, config_string, _write_to_conf), read in
    exactly this attribute order; then for every choice (kconf.unique_choices
    order) choice_key(index, name) -> name of the selected member or None.
    """
    out = {}
    for sym in kconf.unique_defined_syms:
        out[sym.name] = _read_sym(sym, False)
    for idx, ch in enumerate(kconf.unique_choices):
        sel = ch.selection
        out[choice_key(idx, ch.name)] = sel.name if sel is not None else None
    return out


def snapshot_reversed(kconf):
    """
    Same observations as snapshot() read in the opposite order: choices last to
    first, then symbols last to first, per symbol config_string, assignable,
    visibility, str_value (and _write_to_conf last, it is a by-product of the
    value computation).  The returned dict compares equal to snapshot()'s iff
    the observations do not depend on read order.
    """
    out = {}
    choices = list(enumerate(kconf.unique_choices))
    for idx, ch in reversed(choices):
        sel = ch.selection
        out[choice_key(idx, ch.name)] = sel.name if sel is not None else None
    for sym in reversed(kconf.unique_defined_syms):
        out[sym.name] = _read_sym(sym, True)
    return out


def user_state(kconf):
    """
    dict of everything the user has set: symbol name -> Symbol._user_value (0/2
    for bool, str otherwise) for symbols with a user value, and
    choice_key -> name of Choice._user_selection for choices with one.
    """
    out = {}
    for sym in kconf.unique_defined_syms:
        if sym._user_value is not None:
            out[sym.name] = sym._user_value
    for idx, ch in enumerate(kconf.unique_choices):
        if ch._user_selection is not None:
            out[choice_key(idx, ch.name)] = ch._user_selection.name
    return out


def apply_user_state(kconf, state):
    """
    Re-create 'state' (from user_state()) on a FRESH instance of the same tree
    through the public API: Symbol.set_value() for every recorded value in
    Kconfig order; per choice the user-selected member is set to y last so
    that it becomes the user selection.  Three corner states of a choice are
    not reachable with set_value alone and need one extra public call:
      * selected member whose own user value is n   -> set_value(2), set_value(0)
      * selected member without a user value         -> set_value(2), unset_value()
      * members at y but no user selection (after Choice.unset_value())
                                                     -> Choice.unset_value() at the end
    Afterwards user_state(kconf) == state.
    """
    selected = {}
    for idx, ch in enumerate(kconf.unique_choices):
        key = choice_key(idx, ch.name)
        if key in state:
            selected[state[key]] = ch
    for sym in kconf.unique_defined_syms:
        if sym.name in state and sym.name not in selected:
            sym.set_value(state[sym.name])
    for idx, ch in enumerate(kconf.unique_choices):
        key = choice_key(idx, ch.name)
        if key in state:
            member = kconf.syms[state[key]]
            member.set_value(2)
            want = state.get(member.name)
            if want is None:
                member.unset_value()
            elif want != 2:
                member.set_value(want)
        elif any(state.get(m.name) == 2 for m in ch.syms):
            ch.unset_value()


# --------------------------------------------------------------------------
# Histories
# --------------------------------------------------------------------------

OP_KINDS = ("set", "unset", "reset", "pick", "choice_unset")


def _set_values(symrec):
    """(valid values, malformed values) for ("set", name, v) on the option described by symrec."""
    typ = symrec["type"]
    valid, bad = VALUES[typ]
    valid = list(valid)
    if typ in ("int", "hex", "float"):
        for lo, hi, _ in symrec.get("ranges", ()):
            for b in (lo, hi):
                try:
                    v = _numval(typ, b)
                except ValueError:
                    continue  # symbolic bound
                if typ == "float":
                    cands = (v - 0.5, v, v + 0.5)
                    texts = [repr(c) for c in cands]
                elif typ == "int":
                    texts = [str(c) for c in (v - 1, v, v + 1)]
                else:
                    texts = [hex(c) for c in (v - 1, v, v + 1) if c >= 0]
                for t in texts:
                    if t not in valid:
                        valid.append(t)
    return valid, list(bad)


def gen_ops(rng, kconf, spec, length):
    """
    Draw a history of 'length' ops for the loaded tree 'kconf' of 'spec' (see
    the module docstring for the op language).  Only names defined in kconf are
    used; kconf itself is not modified.  Deterministic in the state of rng.
    """
    names = [s.name for s in kconf.unique_defined_syms]
    recs = {s["name"]: s for s in spec.syms}
    members = [s.name for s in kconf.unique_defined_syms if s.choice is not None]
    ckeys = [choice_key(i, c.name) for i, c in enumerate(kconf.unique_choices)]
    ops = []
    for _ in range(length):
        r = rng.random()
        if members and r < 0.15:
            ops.append(("pick", rng.choice(members)))
        elif ckeys and r < 0.22:
            ops.append(("choice_unset", rng.choice(ckeys)))
        elif r < 0.34:
            ops.append(("unset", rng.choice(names)))
        elif r < 0.44:
            ops.append(("reset", rng.choice(names)))
        else:
            name = rng.choice(names)
            rec = recs.get(name) or {"type": K.TYPE_TO_STR[kconf.syms[name].orig_type], "ranges": ()}
            valid, bad = _set_values(rec)
            pool = bad if (bad and rng.random() < 0.2) else valid
            ops.append(("set", name, rng.choice(pool)))
    return ops


def apply_op(kconf, op):
    """Apply one op to kconf; returns whatever the library call returns. Catches nothing."""
    kind = op[0]
    if kind == "set":
        return kconf.syms[op[1]].set_value(op[2])
    if kind == "unset":
        return kconf.syms[op[1]].unset_value()
    if kind == "reset":
        return K._restore_default(kconf.syms[op[1]].nodes[0])
    if kind == "pick":
        return kconf.syms[op[1]].set_value(2)
    if kind == "choice_unset":
        return find_choice(kconf, op[1]).unset_value()
    raise ValueError("unknown op %r" % (op,))


# --------------------------------------------------------------------------
# Fixed enumeration of tiny trees
# --------------------------------------------------------------------------

_BASE_DEFAULT = {"bool": "y", "int": "5", "hex": "0x10", "string": '"text"', "float": "1.50"}
_SECOND_DEFAULT = {"bool": "n", "int": "42", "hex": "0xAB", "string": '"a b"', "float": "-2.5"}

# single-symbol conditions over an option G0 of the given type: (text, tags)
_CONDS1 = {
    "bool": (("G0", ()), ("!G0", ("not",)), ("G0 = y", ("cmp_bool_const",)), ("G0 = n", ("cmp_bool_const",))),
    "int": (("G0 < 5", ("cmp_num",)), ("G0 >= 5", ("cmp_num",)), ("G0 = 5", ("cmp_num",)), ("G0 != 42", ("cmp_num",)),
            ("G0 > -3", ("cmp_num", "int_neg"))),
    "hex": (("G0 = 0x10", ("cmp_num", "hex_0x")), ("G0 > 0xAB", ("cmp_num", "hex_0x", "hex_upper")),
            ("G0 <= ff", ("cmp_num", "hex_bare", "hex_lower")), ("G0 != 10", ("cmp_num", "hex_bare"))),
    "float": (("G0 > 1", ("cmp_num", "float_int")), ("G0 = 1.50", ("cmp_num", "float_trailing_zero")),
              ("G0 < -2.5", ("cmp_num", "float_neg")), ("G0 <= 1e3", ("cmp_num", "float_exp"))),
    "string": (('G0 = "text"', ("cmp_str",)), ('G0 != "a b"', ("cmp_str", "str_space")),
               ('G0 = "a \\"q\\" \\\\ # x"', ("cmp_str", "str_quote", "str_backslash", "str_hash", "str_space")),
               ('G0 = ""', ("cmp_str", "str_empty")), ('G0 = "y"', ("cmp_str", "str_y")),
               ('G0 != "it\'s"', ("cmp_str", "str_squote"))),
}
# two-symbol conditions over bool G0 and bool H1
_CONDS2 = (
    ("G0 && H1", ("and",)), ("G0 || !H1", ("or_not", "not")), ("G0 = H1", ("cmp_sym_sym",)),
    ("G0 != H1", ("cmp_sym_sym",)), ("(G0 || H1) && G0 = y", ("parens", "and", "cmp_bool_const")), ("!G0 && !H1", ("not", "and")),
)
_POSITIONS = ("depends_on", "prompt_if", "default_cond", "if_block", "menu_depends", "menu_visible_if", "comment_depends",
              "range_cond", "choice_prompt_if", "choice_default_cond", "choice_depends")


def _base(name, typ, index=0, **kw):
    kw.setdefault("prompt", name.lower())
    kw.setdefault("defaults", [(_BASE_DEFAULT[typ], None)])
    return _opt(name, typ, index=index, **kw)


def _place(position, cond, ctags, name, index):
    """Items using 'cond' at 'position' on a fresh option/choice called name (the condition's operands precede it)."""
    tags = [position] + list(ctags)
    if position == "depends_on":
        return [("opt", _base(name, "bool", index, depends=[cond], feats=tags))]
    if position == "prompt_if":
        return [("opt", _base(name, "int", index, prompt_if=cond, feats=tags))]
    if position == "default_cond":
        return [("opt", _base(name, "string", index, defaults=[('"a b"', cond), ('"text"', None)],
                              feats=tags + ["default_multi", "default_literal", "str_space"]))]
    if position == "range_cond":
        return [("opt", _base(name, "int", index, ranges=[("0", "5", cond), ("-10", "100", None)], defaults=[("42", None)],
                              feats=tags + ["range_multi", "range_literal", "int_neg"]))]
    if position == "if_block":
        return [("if", cond, [("opt", _base(name, "hex", index, feats=tags))])]
    if position == "menu_depends":
        return [("menu", "menu 1", cond, None, [("opt", _base(name, "bool", index, feats=tags + ["menu"]))])]
    if position == "menu_visible_if":
        return [("menu", "menu 1", None, cond, [("opt", _base(name, "float", index, feats=tags + ["menu"]))])]
    if position == "comment_depends":
        return [("comment", "note 1", cond), ("opt", _base(name, "bool", index, feats=tags + ["comment"]))]
    member = ("opt", _opt(name, "bool", index=index, prompt=name.lower(), feats=tags + ["choice"]))
    if position == "choice_prompt_if":
        return [("choice", "CH%d" % index, "ch", cond, None, [], [member])]
    if position == "choice_default_cond":
        return [("choice", "CH%d" % index, "ch", None, None, [(name, cond)], [member])]
    if position == "choice_depends":
        return [("choice", "CH%d" % index, "ch", None, cond, [], [member])]
    raise ValueError(position)


def _small_models():
    """Yield (origin, items, renames, extra feature tags) in a fixed order."""
    # ---- one option ------------------------------------------------------
    for t in TYPES:
        yield "small:prompt_nodefault:" + t, [("opt", _opt("G0", t, prompt="g0"))], (), ()
        yield "small:promptless_nodefault:" + t, [("opt", _opt("G0", t, feats=["promptless"]))], (), ()
        yield "small:prompt_default:" + t, [("opt", _base("G0", t, feats=["default_literal"]))], (), ()
        yield "small:promptless_default:" + t, [("opt", _base("G0", t, prompt=None, feats=["promptless", "default_literal"]))], (), ()
        yield "small:two_defaults:" + t, [("opt", _base("G0", t, defaults=[(_SECOND_DEFAULT[t], None), (_BASE_DEFAULT[t], None)],
                                                     feats=["default_multi", "default_literal"]))], (), ()
        yield "small:prompt_keyword:" + t, [("opt", _base("G0", t, prompt_kw=True, feats=["prompt_keyword"]))], (), ()
        yield "small:help_warning:" + t, [("opt", _base("G0", t, help="Help of G0.", warning="careful", feats=["help", "warning"]))], (), ()
        yield "small:menuconfig:" + t, [("opt", _base("G0", t, kind="menuconfig", feats=["menuconfig"]))], (), ()
        yield "small:menu:" + t, [("menu", "menu 1", None, None, [("opt", _base("G0", t, feats=["menu"]))])], (), ("menu",)
        yield "small:multi_def_prompt:" + t, [
            ("opt", _base("G0", t)),
            ("menu", "dup G0", None, None, [("opt", _opt("G0", t, prompt="second", defaults=[(_SECOND_DEFAULT[t], None)],
                                                        feats=["multi_def", "multi_def_prompt"]))])], (), ()
        yield "small:multi_def_promptless:" + t, [
            ("opt", _opt("G0", t, prompt="g0", pragma=True)),
            ("menu", "dup G0", None, None, [("opt", _opt("G0", t, defaults=[(_SECOND_DEFAULT[t], None)],
                                                        feats=["multi_def", "multi_def_promptless", "ignore_pragma"]))])], (), ()
        yield "small:rename:" + t, [("opt", _base("G0", t))], [("OLD_G0", "G0", False)], ("rename",)
        yield "small:rename_two_aliases:" + t, [("opt", _base("G0", t))], [("OLD_G0", "G0", False), ("OLD2_G0", "G0", False)], \
            ("rename", "rename_two_aliases")
    yield "small:rename_inverted:bool", [("opt", _base("G0", "bool"))], [("OLDINV_G0", "G0", True)], ("rename", "rename_inverted")
    yield "small:nested_menu:int", [("menu", "menu 1", None, None, [("menu", "menu 2", None, None, [("opt", _base("G0", "int", feats=["menu", "menu_nested"]))])])], \
        (), ("menu", "menu_nested")
    yield "small:comment:bool", [("comment", "note 1", None), ("opt", _base("G0", "bool", feats=["comment"]))], (), ("comment",)
    yield "small:choice_one_member", [("choice", "CH0", "ch", None, None, [("G0", None)],
                                       [("opt", _opt("G0", "bool", prompt="g0", feats=["choice", "choice_default"]))])], (), ("choice", "choice_default")
    for t in ("int", "hex", "float", "string"):
        for text, tags in _LITS[t]:
            if any(x in OFF_BY_DEFAULT for x in tags):
                continue
            lit = '"%s"' % kescape(text) if t == "string" else text
            yield "small:literal:%s:%s" % (t, text), [("opt", _base("G0", t, defaults=[(lit, None)], feats=["default_literal"] + list(tags)))], (), ()
    for t, lo, hi, inside, below, above in (("int", "0", "10", "5", "-3", "42"), ("hex", "0x10", "0xAB", "0x20", "7", "0XFF"),
                                            ("float", "-2.5", "1e3", "1.50", "-10.0", "2e3")):
        for label, d in (("inside", inside), ("below", below), ("above", above), ("nodefault", None)):
            yield "small:range_literal_%s:%s" % (label, t), [("opt", _base("G0", t, ranges=[(lo, hi, None)],
                                                             defaults=[(d, None)] if d else [], feats=["range_literal"]))], (), ()
        yield "small:range_promptless:" + t, [("opt", _base("G0", t, prompt=None, ranges=[(lo, hi, None)], defaults=[(above, None)],
                                                             feats=["range_literal", "promptless"]))], (), ()
        yield "small:range_multi:" + t, [("opt", _base("G0", t, ranges=[(lo, lo, None), (lo, hi, None)], defaults=[(above, None)],
                                                        feats=["range_literal", "range_multi"]))], (), ()
    # ---- two options -----------------------------------------------------
    for t in TYPES:
        for ci, (cond, ctags) in enumerate(_CONDS1[t]):
            if t == "bool" and ci < 2:
                positions = _POSITIONS
            else:
                k = (TYPES.index(t) * 5 + ci * 3) % len(_POSITIONS)
                positions = (_POSITIONS[k], _POSITIONS[(k + 4) % len(_POSITIONS)])
            for pos in positions:
                yield "small:%s:%s:%s" % (pos, t, cond), [("opt", _base("G0", t))] + _place(pos, cond, ctags, "H1", 1), (), (pos,)
        # defaults naming another option
        yield "small:default_sym:" + t, [("opt", _base("G0", t)), ("opt", _base("H1", t, 1, defaults=[("G0", None)], feats=["default_sym"]))], (), ()
        yield "small:default_sym_promptless:" + t, [("opt", _base("G0", t)),
                                                    ("opt", _base("H1", t, 1, prompt=None, defaults=[("G0", None)], feats=["default_sym", "promptless"]))], (), ()
        yield "small:menuconfig_child:" + t, [("opt", _base("G0", "bool", kind="menuconfig", feats=["menuconfig"])),
                                              ("opt", _base("H1", t, 1, depends=["G0"], feats=["depends_on"]))], (), ()
        yield "small:multi_def_cond:" + t, [
            ("opt", _base("G0", "bool")), ("opt", _base("H1", t, 1)),
            ("menu", "dup H1", "G0", None, [("opt", _opt("H1", t, index=1, prompt="second", prompt_if="G0", defaults=[(_SECOND_DEFAULT[t], "G0")],
                                                        feats=["multi_def", "multi_def_prompt", "multi_def_menu_depends", "prompt_if", "default_cond"]))])], (), ()
    yield "small:default_not:bool", [("opt", _base("G0", "bool")), ("opt", _base("H1", "bool", 1, defaults=[("!G0", None)], feats=["default_sym", "default_not"]))], (), ()
    for t, lit in (("int", "100"), ("hex", "0XFF"), ("float", "1e3")):
        yield "small:range_sym_same:" + t, [("opt", _base("G0", t)), ("opt", _base("H1", t, 1, ranges=[("G0", "G0", None)],
                                                                                 defaults=[(lit, None)], feats=["range_sym"]))], (), ()
        yield "small:range_mixed_low:" + t, [("opt", _base("G0", t)), ("opt", _base("H1", t, 1, ranges=[("G0", lit, None)],
                                                                                  defaults=[("0", None)], feats=["range_mixed"]))], (), ()
        yield "small:range_mixed_high:" + t, [("opt", _base("G0", t)), ("opt", _base("H1", t, 1, ranges=[("0", "G0", None)],
                                                                                   defaults=[(lit, None)], feats=["range_mixed"]))], (), ()
    for src_default in ("y", "n"):
        for src_prompt in ("g0", None):
            sfx = "%s_%s" % (src_default, "prompt" if src_prompt else "promptless")
            yield "small:select:" + sfx, [("opt", _base("G0", "bool", prompt=src_prompt, defaults=[(src_default, None)], selects=[("H1", None)], feats=["select"])),
                                          ("opt", _opt("H1", "bool", index=1, prompt="h1"))], (), ()
            yield "small:imply:" + sfx, [("opt", _base("G0", "bool", prompt=src_prompt, defaults=[(src_default, None)], implies=[("H1", None)], feats=["imply"])),
                                         ("opt", _opt("H1", "bool", index=1, prompt="h1"))], (), ()
            for t in ("int", "hex", "string", "float"):
                v = _SECOND_DEFAULT[t]
                yield "small:set:%s:%s" % (t, sfx), [
                    ("opt", _base("G0", "bool", prompt=src_prompt, defaults=[(src_default, None)], sets=[("H1", v, None)], feats=["set", "set_to_" + t])),
                    ("opt", _base("H1", t, 1))], (), ()
                yield "small:set_default:%s:%s" % (t, sfx), [
                    ("opt", _base("G0", "bool", prompt=src_prompt, defaults=[(src_default, None)], weak_sets=[("H1", v, None)],
                                  feats=["set_default", "set_default_to_" + t])),
                    ("opt", _base("H1", t, 1))], (), ()
    yield "small:default_not_promptless:bool", [("opt", _base("G0", "bool", defaults=[("n", None)])),
                                                ("opt", _base("H1", "bool", 1, prompt=None, defaults=[("!G0", None)], feats=["default_sym", "default_not", "promptless"]))], (), ()
    yield "small:rename_inverted_promptless:bool", [("opt", _base("G0", "bool")), ("opt", _base("H1", "bool", 1, prompt=None, defaults=[("G0", None)], feats=["promptless", "default_sym"]))], \
        [("OLDINV_G0", "G0", True), ("OLDINV_H1", "H1", True)], ("rename", "rename_inverted")
    yield "small:choice_member_source_set:int", [("choice", "CH0", "ch", None, None, [], [
        ("opt", _opt("G0", "bool", prompt="g0", sets=[("H1", "42", None)], feats=["choice", "member_source", "set", "set_to_int"]))]),
        ("opt", _base("H1", "int", 1))], (), ("choice", "member_source")
    yield "small:select_promptless_target", [("opt", _base("G0", "bool", selects=[("H1", None)], feats=["select"])),
                                             ("opt", _opt("H1", "bool", index=1, feats=["promptless"]))], (), ()
    yield "small:set_then_set_default:int", [("opt", _base("G0", "bool", sets=[("H1", "7", None)], weak_sets=[("H1", "42", None)], feats=["set", "set_default"])),
                                             ("opt", _base("H1", "int", 1, ranges=[("0", "5", None)], feats=["range_literal"]))], (), ()
    for label, name, defs, tags in (("nodefault", "CH0", [], ()), ("default_second", "CH0", [("H1", None)], ("choice_default",)),
                                    ("default_first", "CH0", [("G0", None)], ("choice_default",)), ("unnamed", None, [("H1", None)], ("choice_unnamed", "choice_default")),
                                    ("two_defaults", "CH0", [("H1", None), ("G0", None)], ("choice_default",))):
        yield "small:choice:" + label, [("choice", name, "ch", None, None, defs, [
            ("opt", _opt("G0", "bool", prompt="g0", feats=["choice"] + list(tags))),
            ("opt", _opt("H1", "bool", index=1, prompt="h1", feats=["choice"] + list(tags)))])], (), ("choice",) + tuple(tags)
    yield "small:choice_member_source", [("choice", "CH0", "ch", None, None, [], [
        ("opt", _opt("G0", "bool", prompt="g0", selects=[("H1", None)], feats=["choice", "member_source", "select"]))]),
        ("opt", _opt("H1", "bool", index=1, prompt="h1"))], (), ("choice", "member_source")
    # ---- three options ---------------------------------------------------
    for cond, ctags in _CONDS2:
        for pos in ("depends_on", "default_cond", "prompt_if", "choice_default_cond"):
            yield "small:%s:2sym:%s" % (pos, cond), [("opt", _base("G0", "bool")), ("opt", _base("H1", "bool", 1, defaults=[("n", None)]))] \
                + _place(pos, cond, ctags, "J2", 2), (), (pos,)
    for t in ("int", "hex", "float", "string"):
        yield "small:cmp_sym_sym:" + t, [("opt", _base("G0", t)), ("opt", _base("H1", t, 1, defaults=[(_SECOND_DEFAULT[t], None)])),
                                         ("opt", _base("J2", "bool", 2, defaults=[("y", "G0 = H1"), ("n", None)],
                                                       feats=["cmp_sym_sym", "default_cond", "default_multi"]))], (), ()
    for t, lo, hi, d in (("int", "0", "10", "42"), ("hex", "0x10", "0xAB", "0XFF"), ("float", "-2.5", "1e3", "2e3")):
        yield "small:range_min_max:" + t, [("opt", _base("G0", t, defaults=[(lo, None)])), ("opt", _base("H1", t, 1, defaults=[(hi, None)])),
                                           ("opt", _base("J2", t, 2, ranges=[("G0", "H1", None)], defaults=[(d, None)], feats=["range_sym"]))], (), ()
        yield "small:range_max_min:" + t, [("opt", _base("G0", t, defaults=[(hi, None)])), ("opt", _base("H1", t, 1, defaults=[(lo, None)])),
                                           ("opt", _base("J2", t, 2, ranges=[("G0", "H1", None)], defaults=[(d, None)], feats=["range_sym"]))], (), ()
    yield "small:select_cond", [("opt", _base("G0", "bool")), ("opt", _base("H1", "bool", 1, selects=[("J2", "G0")], feats=["select", "select_cond"])),
                                ("opt", _opt("J2", "bool", index=2, prompt="j2", depends=["!G0"], feats=["depends_on", "not"]))], (), ()
    yield "small:select_cond_not", [("opt", _base("G0", "bool", defaults=[("n", None)])), ("opt", _base("H1", "bool", 1, selects=[("J2", "!G0")], feats=["select", "select_cond", "not"])),
                                    ("opt", _opt("J2", "bool", index=2, feats=["promptless"]))], (), ()
    yield "small:imply_depends", [("opt", _base("G0", "bool")), ("opt", _base("H1", "bool", 1, implies=[("J2", None)], feats=["imply"])),
                                  ("opt", _opt("J2", "bool", index=2, prompt="j2", depends=["!G0"], feats=["depends_on", "not"]))], (), ()
    for t in ("int", "hex", "string", "float"):
        v = _SECOND_DEFAULT[t]
        yield "small:set_cond:" + t, [("opt", _base("G0", "bool")), ("opt", _base("H1", "bool", 1, sets=[("J2", v, "G0")], feats=["set", "set_cond", "set_to_" + t])),
                                      ("opt", _base("J2", t, 2, depends=["!G0"], feats=["depends_on", "not"]))], (), ()
        yield "small:set_default_cond:" + t, [("opt", _base("G0", "bool")),
                                              ("opt", _base("H1", "bool", 1, weak_sets=[("J2", v, "G0")], feats=["set_default", "set_cond", "set_default_to_" + t])),
                                              ("opt", _base("J2", t, 2, depends=["!G0"], feats=["depends_on", "not"]))], (), ()
        symtag = "set_sym" if t == "string" else "set_sym_num"
        yield "small:set_sym:" + t, [("opt", _base("G0", t, defaults=[(v, None)])), ("opt", _base("H1", "bool", 1, sets=[("J2", "G0", None)], feats=["set", symtag, "set_to_" + t])),
                                     ("opt", _base("J2", t, 2))], (), ()
        if t != "hex":
            yield "small:set_default_sym:" + t, [("opt", _base("G0", t, defaults=[(v, None)])),
                                                 ("opt", _base("H1", "bool", 1, weak_sets=[("J2", "G0", None)], feats=["set_default", symtag, "set_default_to_" + t])),
                                                 ("opt", _base("J2", t, 2))], (), ()
    yield "small:two_sources:int", [("opt", _base("G0", "bool", sets=[("J2", "7", None)], feats=["set"])), ("opt", _base("H1", "bool", 1, sets=[("J2", "42", None)], feats=["set"])),
                                    ("opt", _base("J2", "int", 2))], (), ()
    for label, member_kw, tags in (("member_prompt_if", {"prompt_if": "G0"}, ("choice_member_prompt_if",)), ("member_depends", {"depends": ["G0"]}, ("choice_member_depends",)),
                                   ("member_depends_not", {"depends": ["!G0"]}, ("choice_member_depends", "not"))):
        for default_member in ("H1", "J2"):
            yield "small:choice_%s:default_%s" % (label, default_member), [
                ("opt", _base("G0", "bool")),
                ("choice", "CH1", "ch", None, None, [(default_member, None)], [
                    ("opt", _opt("H1", "bool", index=1, prompt="h1", feats=["choice", "choice_default"] + list(tags), **member_kw)),
                    ("opt", _opt("J2", "bool", index=2, prompt="j2", feats=["choice", "choice_default"]))])], (), ("choice", "choice_default") + tuple(tags)
    yield "small:choice_cond_defaults", [("opt", _base("G0", "bool")), ("choice", "CH1", "ch", "G0 = y", None, [("J2", "G0"), ("H1", None)], [
        ("opt", _opt("H1", "bool", index=1, prompt="h1", feats=["choice", "choice_default", "choice_default_cond", "choice_prompt_if"])),
        ("opt", _opt("J2", "bool", index=2, prompt="j2", feats=["choice"]))])], (), ("choice", "choice_default", "choice_default_cond", "choice_prompt_if", "cmp_bool_const")
    yield "small:choice_in_menu_visible_if", [("opt", _base("G0", "bool")), ("menu", "menu 1", None, "G0", [("choice", None, "ch", None, None, [], [
        ("opt", _opt("H1", "bool", index=1, prompt="h1", feats=["choice", "choice_unnamed", "menu", "menu_visible_if"])),
        ("opt", _opt("J2", "bool", index=2, prompt="j2", feats=["choice"]))])])], (), ("choice", "choice_unnamed", "menu", "menu_visible_if")
    yield "small:nested_menus_conds", [("opt", _base("G0", "bool")), ("menu", "menu 1", "G0", None, [
        ("opt", _base("H1", "bool", 1, feats=["menu", "menu_depends"])),
        ("menu", "menu 2", None, "H1", [("opt", _base("J2", "int", 2, feats=["menu", "menu_nested", "menu_visible_if"]))])])], (), \
        ("menu", "menu_depends", "menu_nested", "menu_visible_if")
    yield "small:if_in_if", [("opt", _base("G0", "bool")), ("if", "G0", [("opt", _base("H1", "bool", 1, feats=["if_block"])),
                                                                         ("if", "!H1", [("opt", _base("J2", "string", 2, feats=["if_block", "not"]))])])], (), ("if_block",)
    yield "small:multi_def_other_menu", [
        ("opt", _base("G0", "bool")),
        ("menu", "menu 1", None, None, [("opt", _base("H1", "int", 1, prompt=None, feats=["menu", "promptless"]))]),
        ("opt", _base("J2", "bool", 2)),
        ("menu", "dup H1", "G0", None, [("opt", _opt("H1", "int", index=1, prompt="second", defaults=[("42", "G0")],
                                                    feats=["multi_def", "multi_def_prompt", "multi_def_menu_depends", "default_cond"]))])], (), ("menu",)


def small_trees(max_syms=3, validate=False):
    """
    Deterministic, rng-free generator (yield) of tiny TreeSpecs with at most
    max_syms options (fragments exist for 1, 2 and 3 options; see the module
    docstring).  The fragments are fixed and accepted by both parsers of the
    unchanged library (checked by --selftest); with validate=True every tree is
    re-validated and an AssertionError names the first rejected one.
    """
    for origin, items, renames, extra in _small_models():
        spec = build_spec(items, renames, extra, origin)
        if len(spec.syms) > max_syms:
            continue
        if validate:
            err = spec.validate()
            assert err is None, "%s rejected by parser %s: %s\n%s" % (origin, err[0], err[1], spec.text)
        yield spec


def corpus(seed, count, n_syms=6, features=None):
    """
    list of TreeSpec: all of small_trees(2) followed by 'count' random trees,
    the i-th drawn with gen_tree(random.Random(seed * 1000003 + i), n_syms,
    features).  Fully determined by (seed, count, n_syms, features) and the
    library under test (only through validation).
    """
    out = list(small_trees(2))
    for i in range(count):
        spec = gen_tree(random.Random(seed * 1000003 + i), n_syms, features)
        spec.origin = "random:%d:%d" % (seed, i)
        out.append(spec)
    return out


# --------------------------------------------------------------------------
# Self test:  cd /verif && python -m rtc.gen --selftest [--count N] [--seed S]
# --------------------------------------------------------------------------

# tags that are recorded but cannot be switched: target type of set / set default
DERIVED_TAGS = tuple("%s_to_%s" % (p, t) for p in ("set", "set_default") for t in ("int", "hex", "string", "float", "bool"))


def _exercise(spec, rng, n_ops, problems):
    """Load spec with both parsers, run one n_ops history on each, compare read orders and state replay."""
    with tempfile.TemporaryDirectory(prefix="rtcgen") as d:
        ops = None
        for version in (1, 2):
            kconf = spec.load(d, parser_version=version)
            if ops is None:
                ops = gen_ops(rng, kconf, spec, n_ops)
            snapshot(kconf)
            for op in ops:
                apply_op(kconf, op)
            fwd = snapshot(kconf)
            if [s.name for s in kconf.unique_defined_syms] != [s["name"] for s in spec.syms]:
                problems.append("%s: parser %d symbol order differs from spec" % (spec.origin, version))
            if [choice_key(i, c.name) for i, c in enumerate(kconf.unique_choices)] != [c["key"] for c in spec.choices]:
                problems.append("%s: parser %d choices differ from spec" % (spec.origin, version))
            state = user_state(kconf)
            fresh = spec.load(d, parser_version=version)
            apply_user_state(fresh, state)
            if user_state(fresh) != state:
                problems.append("%s: parser %d apply_user_state does not reproduce user_state" % (spec.origin, version))
            if snapshot_reversed(fresh).keys() != fwd.keys():
                problems.append("%s: parser %d snapshot key mismatch" % (spec.origin, version))
        return ops


def selftest(count=200, seed=0, n_syms=6, n_ops=6, out=sys.stdout):
    """See module docstring / --help. Returns the process exit code."""
    problems = []
    t0 = time.perf_counter()
    small = list(small_trees(3, validate=True))
    t_small = time.perf_counter() - t0
    sizes = {}
    for s in small:
        sizes[len(s.syms)] = sizes.get(len(s.syms), 0) + 1

    t0 = time.perf_counter()
    trees = [gen_tree(random.Random(seed * 1000003 + i), n_syms) for i in range(count)]
    t_gen = time.perf_counter() - t0
    again = gen_tree(random.Random(seed * 1000003), n_syms, validate=False) if count else None
    # determinism of the draw itself (same rng state -> same first accepted tree when nothing was rejected)
    if count and not trees[0].rejects and again.text != trees[0].text:
        problems.append("gen_tree is not deterministic")

    t0 = time.perf_counter()
    n_applied = 0
    for i, spec in enumerate(trees):
        ops = _exercise(spec, random.Random(seed * 7919 + i), n_ops, problems)
        n_applied += len(ops)
    t_run = time.perf_counter() - t0
    for i, spec in enumerate(small):
        _exercise(spec, random.Random(seed * 104729 + i), n_ops, problems)

    def table(title, specs):
        cnt = {}
        combos = {}
        for s in specs:
            for f in s.features:
                cnt[f] = cnt.get(f, 0) + 1
            for c in s.combos:
                combos[c] = combos.get(c, 0) + 1
        print("\n%s: %d trees, %d distinct type:feature combinations" % (title, len(specs), len(combos)), file=out)
        names = [f for f in ALL_FEATURES + DERIVED_TAGS]
        width = max(len(n) for n in names)
        rows = ["%-*s %5d%s" % (width, n, cnt.get(n, 0), "  (off by default)" if n in OFF_BY_DEFAULT else "") for n in names]
        half = (len(rows) + 1) // 2
        for k in range(half):
            left = rows[k]
            right = rows[k + half] if k + half < len(rows) else ""
            print("  %-*s  %s" % (width + 26, left, right), file=out)
        missing = [n for n in DEFAULT_FEATURES if cnt.get(n, 0) == 0]
        return sorted(missing), cnt

    print("rtc.gen selftest: seed=%d count=%d n_syms=%d n_ops=%d" % (seed, count, n_syms, n_ops), file=out)
    miss_r, _ = table("random trees", trees)
    miss_s, cnt_s = table("small_trees(3)", small)
    print("\nsmall_trees by number of options: %s; small_trees(2) = %d trees" % (
        ", ".join("%d: %d" % (k, sizes[k]) for k in sorted(sizes)), sum(v for k, v in sizes.items() if k <= 2)), file=out)
    thin = sorted(n for n in DEFAULT_FEATURES if cnt_s.get(n, 0) < 2)
    if miss_s:
        problems.append("default features absent from small_trees(3): %s" % ", ".join(miss_s))
    if thin:
        print("default features in fewer than 2 small trees: %s" % ", ".join(thin), file=out)
    if miss_r:
        print("default features absent from the %d random trees: %s" % (count, ", ".join(miss_r)), file=out)
    n_rej = sum(len(s.rejects) for s in trees)
    print("rejected draws during generation: %d" % n_rej, file=out)
    seen = []
    for s in trees:
        for text, version, err in s.rejects:
            if err not in seen:
                seen.append(err)
                print("  parser %d: %s" % (version, err.splitlines()[0][:200]), file=out)
    sym_total = sum(len(s.syms) for s in trees)
    print("options per random tree: %.2f avg; histories: %d ops applied per parser" % (sym_total / max(1, count), n_applied), file=out)
    print("time: small_trees(3) build+validate %.2fs (%d trees); gen_tree incl. both validation loads %.2fs = %.1f trees/s; "
          "load x2 + history + snapshots %.2fs = %.1f trees/s" % (
              t_small, len(small), t_gen, count / t_gen if t_gen else 0.0, t_run, count / t_run if t_run else 0.0), file=out)
    print("KNOWN_REJECTED (%d, off by default): %s" % (len(KNOWN_REJECTED), ", ".join(e["feature"] for e in KNOWN_REJECTED)), file=out)
    for p in problems:
        print("PROBLEM: " + p, file=out)
    print("selftest %s" % ("FAILED" if problems else "ok"), file=out)
    return 1 if problems else 0


def _check_known_rejected(out=sys.stdout):
    """Re-run the KNOWN_REJECTED reproductions and print what the library does now (informational)."""
    for e in KNOWN_REJECTED:
        spec = TreeSpec(_REPRO_PREFIX + e["snippet"])
        res = []
        with tempfile.TemporaryDirectory(prefix="rtcgen") as d:
            for version in (1, 2):
                try:
                    kconf = spec.load(d, parser_version=version)
                    vals = ["%s=%r" % (s.name, s.str_value) for s in kconf.unique_defined_syms]
                    res.append("parser %d: accepted %s" % (version, " ".join(vals)))
                except Exception as ex:  # noqa: BLE001
                    res.append("parser %d: %s: %s" % (version, type(ex).__name__, str(ex).splitlines()[0][:120]))
        print("%-22s %s | %s" % (e["feature"], res[0], res[1]), file=out)


def main(argv=None):
    import argparse

    ap = argparse.ArgumentParser(prog="python -m rtc.gen", description="generator self test / inspection")
    ap.add_argument("--selftest", action="store_true", help="generate, load with both parsers, run histories, print coverage")
    ap.add_argument("--count", type=int, default=200)
    ap.add_argument("--seed", type=int, default=0)
    ap.add_argument("--n-syms", type=int, default=6)
    ap.add_argument("--show", type=int, metavar="I", help="print random tree I of the given seed and exit")
    ap.add_argument("--known-rejected", action="store_true", help="re-run the KNOWN_REJECTED reproductions")
    args = ap.parse_args(argv)
    scrub_env()
    if args.show is not None:
        spec = gen_tree(random.Random(args.seed * 1000003 + args.show), args.n_syms)
        print(spec.text)
        if spec.rename_text:
            print("--- sdkconfig.rename\n" + spec.rename_text)
        return 0
    if args.known_rejected:
        _check_known_rejected()
        return 0
    if args.selftest:
        return selftest(args.count, args.seed, args.n_syms)
    ap.print_help()
    return 0


if __name__ == "__main__":
    sys.exit(main())
