import cProfile, pstats, sys, signal
sys.path.insert(0,'/verif'); sys.path.insert(0,'/repo')
from pyvc import verify
reg, sources = verify.load_sidecars(sys.argv[1].split(','))
pr = cProfile.Profile()
def stop(*a): raise KeyboardInterrupt
signal.signal(signal.SIGALRM, stop); signal.alarm(int(sys.argv[3]))
pr.enable()
try:
    rep = verify.verify_function(reg, sources, sys.argv[2])
    print(rep.status, rep.reason, rep.paths, rep.stats)
except KeyboardInterrupt:
    print('interrupted')
pr.disable()
pstats.Stats(pr).sort_stats('cumulative').print_stats(40)
