import sys
sys.path.insert(0, "/verif"); sys.path.insert(0, "/repo")
from pyvc import verify
import z3
reg, sources = verify.load_sidecars(["contracts.kschema","contracts.c_eval"])
rep = verify.verify_function(reg, sources, sys.argv[1]); verify.discharge(rep)
for o in rep.obligations:
    if o["status"] == "failed" and sys.argv[2] in o["name"]:
        ob = o["_ob"]; m = o["_model"]
        print("=====", o["name"])
        for d in m.decls():
            if d.arity() == 0 and (d.name().startswith("k!") or d.name().startswith("mrg") or d.name().startswith("r_")):
                print("  ", d.name(), "=", m[d])
        for i, c in enumerate(ob.pc):
            v = m.eval(c, model_completion=True)
            s = str(z3.simplify(c)).replace("\n", " ")
            if not z3.is_true(v):
                print("  NOT-TRUE-IN-MODEL", i, str(v)[:80], "::", s[:1200])
        print("   GOAL:", str(ob.goal).replace("\n", " ")[:600])

        s = z3.Solver()
        for c in ob.pc: s.add(c)
        s.add(z3.Not(ob.goal))
        open("/tmp/ob.smt2","w").write("(set-logic ALL)\n"+s.to_smt2())
        break
