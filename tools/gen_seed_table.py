#!/usr/bin/env python3
"""Rewrites the section of DESIGN.md between <!-- SEEDS-BEGIN --> and <!-- SEEDS-END --> from seeded/*/meta.json,
README.txt and seeded/RESULTS.json (written by tools/run_seeds.py)."""
import json, os, re
V = os.path.dirname(os.path.dirname(os.path.abspath(__file__)))
res = {}
p = os.path.join(V, "seeded", "RESULTS.json")
if os.path.exists(p):
    for r in json.load(open(p)):
        res.setdefault(r["seed"], []).append(r)
rows = []
for sid in sorted(d for d in os.listdir(os.path.join(V, "seeded")) if os.path.isdir(os.path.join(V, "seeded", d))):
    d = os.path.join(V, "seeded", sid)
    meta = json.load(open(os.path.join(d, "meta.json")))
    readme = open(os.path.join(d, "README.txt")).read() if os.path.exists(os.path.join(d, "README.txt")) else ""
    first = next((ln.strip() for ln in readme.splitlines() if ln.strip() and not set(ln.strip()) <= set("=-")), "")
    first = re.sub(r"\s+", " ", first)[:150]
    rr = res.get(sid, [])
    own = [r for r in rr if r["check"] == meta["property"]]
    if own:
        r = own[-1]
        det = ("**caught** by " + (r["info"] or "?")[:160]) if r["detected"] else ("missed (exit %s)" % r["exit"])
    else:
        det = "not run"
    rows.append(f"| {sid} | {meta['property']} | {first} | {det} |")
txt = ("| seed | property | change (author's first line) | quick check of its property |\n|---|---|---|---|\n" + "\n".join(rows) + "\n")
dp = os.path.join(V, "DESIGN.md")
s = open(dp).read()
a, b = "<!-- SEEDS-BEGIN -->", "<!-- SEEDS-END -->"
if a in s:
    s = s[:s.index(a) + len(a)] + "\n" + txt + s[s.index(b):]
    open(dp, "w").write(s)
print(len(rows), "seeds;", sum("**caught**" in r for r in rows), "caught")
