#!/bin/sh
# usage: tools/tv.sh <logname> <timeout-seconds> <sidecars> <key...>  -- background-friendly verification of single functions
name=$1; to=$2; shift 2
cd /verif
PYTHONHASHSEED=0 timeout $to .venv/bin/python tools/try_verify.py "$@" > /tmp/tv_$name.log 2>&1
echo "EXIT $?" >> /tmp/tv_$name.log
