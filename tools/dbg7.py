import sys, os
sys.path.insert(0, "/verif"); sys.path.insert(0, "/repo")
from pyvc import verify, calls, exec as E, types as T
import z3
reg, sources = verify.load_sidecars(["contracts.kschema","contracts.c_eval"])
orig = E.Exec.get_attr
def ga(self, ctx, st, obj, attr, node):
    r = orig(self, ctx, st, obj, attr, node)
    if r.k == "py" and isinstance(r.py, E.BoundMethod) and r.py.cls == "str" and attr in ("name", "str_value"):
        print("BOUNDMETHOD", attr, "in", [f.fname for f in st.frames], "line", node.lineno, "obj", str(obj.t)[:200])
        for c, k in zip(ctx.pc, ctx.kinds):
            print("   ", k, str(z3.simplify(c)).replace("\n", " ")[:500])
        os._exit(0)
    return r
E.Exec.get_attr = ga
rep = verify.verify_function(reg, sources, sys.argv[1])
print(rep.status, rep.reason)
