#!/bin/sh
# usage: tools/mutate_try.sh <file-relative-to-repo> <python-expr old> <new> <sidecars> <key...>
# verifies <key...> on a scratch worktree of /repo in which the first occurrence of <old> in <file> is replaced by <new>
f=$1; old=$2; new=$3; shift 3
W=$(mktemp -d /tmp/mut_XXXXXX); rmdir $W
git -C /repo worktree add -q --detach $W HEAD || exit 2
python3 - "$W/$f" "$old" "$new" <<'PY'
import sys
p, old, new = sys.argv[1:4]
s = open(p).read()
assert s.count(old) >= 1, "pattern not found"
open(p, "w").write(s.replace(old, new, 1))
PY
cd /verif; PYVC_REPO=$W PYTHONHASHSEED=0 timeout 1800 .venv/bin/python tools/try_verify.py "$@" 2>&1 | grep -v "^WARNING conda" | cut -c1-700
git -C /repo worktree remove --force $W; rm -rf $W
