import sys, time
sys.path.insert(0, "/verif"); sys.path.insert(0, "/repo")
from pyvc import verify
import z3
mods = sys.argv[1].split(",")
reg, sources = verify.load_sidecars(mods)
key = sys.argv[2]; want = sys.argv[3] if len(sys.argv) > 3 else None
rep = verify.verify_function(reg, sources, key)
print(rep.status, rep.reason)
verify.discharge(rep)
n = 0
for o in rep.obligations:
    if o["status"] == "failed" and (want is None or want in o["name"]):
        ob = o["_ob"]
        print("=====", o["name"], o.get("line"))
        for c in ob.pc:
            s = str(z3.simplify(c)).replace("\n", " ")
            print("   pc:", s[:260])
        print("   GOAL:", str(ob.goal).replace("\n", " ")[:1500])
        n += 1
        if n >= int(sys.argv[4] if len(sys.argv) > 4 else 1):
            break
