#!/bin/sh
# usage: tools/reconfirm_seeds.sh [--suite] <seed-id>...   -- re-confirms seeded changes against /repo's current HEAD:
# patch applies, demo fails with it and passes without it (with --suite: the pinned suite still passes with the change).
suite=0; [ "$1" = "--suite" ] && { suite=1; shift; }
for sid in "$@"; do
  d=/verif/seeded/$sid; W=/tmp/reseed_$sid
  git -C /repo worktree remove --force $W >/dev/null 2>&1
  git -C /repo worktree add -q --detach $W HEAD || { echo "$sid: worktree failed"; continue; }
  res=ok; base=""
  (cd /tmp && REPO_UNDER_TEST=$W timeout 900 /venv/bin/python $d/demo.py >/dev/null 2>&1); rc_clean=$?
  if ! git -C $W apply $d/patch.diff 2>/dev/null; then res="patch-does-not-apply"; fi
  if [ "$res" = ok ]; then
    (cd /tmp && REPO_UNDER_TEST=$W timeout 900 /venv/bin/python $d/demo.py >/dev/null 2>&1); rc_mut=$?
    [ $rc_mut -eq 0 ] && res="demo-passes-with-change"
    [ $rc_clean -ne 0 ] && res="demo-fails-on-clean-tree(rc=$rc_clean)"
    if [ "$res" = ok ] && [ $suite -eq 1 ]; then
      base=$(/venv/bin/python /verif/tools/run_baseline.py $W | grep stable_pass)
      case "$base" in *"missing=0"*) ;; *) res="suite-changed: $base";; esac
    fi
  fi
  git -C /repo worktree remove --force $W >/dev/null 2>&1; rm -rf $W
  echo "$sid: $res (demo rc with change=$rc_mut, clean=$rc_clean) $base"
done
