#!/usr/bin/env python3
"""Run checks against the seeded changes in /verif/seeded (each applied to a scratch worktree of /repo's HEAD; /repo
itself is never touched; evidence / replays of these runs go to a scratch directory).

usage: tools/run_seeds.py [--props C01,C05] [--seeds C03-m1,...] [--all-props] [--tier quick] [--jobs N]
Default: every seed is run against the check of the property it was written for.  Prints one line per (seed, property)
and writes /verif/seeded/RESULTS.json (detected = exit 1 with a VIOLATION line)."""
import argparse, json, os, shutil, subprocess, sys, tempfile
from concurrent.futures import ThreadPoolExecutor

VERIF = os.path.dirname(os.path.dirname(os.path.abspath(__file__)))
ap = argparse.ArgumentParser()
ap.add_argument("--props", default=None)
ap.add_argument("--seeds", default=None)
ap.add_argument("--tier", default="quick")
ap.add_argument("--jobs", type=int, default=2)
ap.add_argument("--cross", action="store_true", help="run every claimed check against every seed")
args = ap.parse_args()
manifest = json.load(open(os.path.join(VERIF, "MANIFEST.json")))
claimed = [c["property_id"] for c in manifest["checks"]]
seeds = sorted(d for d in os.listdir(os.path.join(VERIF, "seeded")) if os.path.isdir(os.path.join(VERIF, "seeded", d)))
if args.seeds:
    seeds = [s for s in seeds if s in args.seeds.split(",")]


def run(seed):
    meta = json.load(open(os.path.join(VERIF, "seeded", seed, "meta.json")))
    props = args.props.split(",") if args.props else ([p for p in claimed] if args.cross else [meta["property"]])
    props = [p for p in props if p in claimed]
    out = []
    if not props:
        return [(seed, meta["property"], None, "property not claimed")]
    wt = tempfile.mkdtemp(prefix=f"seedrun_{seed}_")
    os.rmdir(wt)
    subprocess.run(["git", "-C", "/repo", "worktree", "add", "-q", "--detach", wt, "HEAD"], check=True)
    try:
        p = subprocess.run(["git", "-C", wt, "apply", os.path.join(VERIF, "seeded", seed, "patch.diff")], capture_output=True, text=True)
        if p.returncode != 0:
            return [(seed, pr, None, "patch does not apply: " + p.stderr.strip()[:200]) for pr in props]
        for pr in props:
            outdir = tempfile.mkdtemp(prefix="seedout_")
            env = dict(os.environ, PYVC_REPO=wt, VERIF_OUT=outdir, VERIF_JOBS=str(max(1, 16 // args.jobs)))
            q = subprocess.run([os.path.join(VERIF, "check"), pr, "--tier", args.tier], cwd=VERIF, env=env, capture_output=True, text=True)
            viol = [ln for ln in q.stdout.splitlines() if ln.startswith("VIOLATION")]
            names = set()
            for ln in viol:
                try:
                    rp = ln.split("replay=")[1].split()[0]
                    names.add(json.load(open(rp)).get("obligation") or json.load(open(rp)).get("bounded"))
                except Exception:
                    pass
            out.append((seed, pr, q.returncode, "; ".join(sorted(str(n) for n in names))[:300] or q.stdout.strip().splitlines()[-1][:200] if q.stdout.strip() else q.stderr[-200:]))
            shutil.rmtree(outdir, ignore_errors=True)
    finally:
        subprocess.run(["git", "-C", "/repo", "worktree", "remove", "--force", wt], capture_output=True)
        shutil.rmtree(wt, ignore_errors=True)
    return out


results = []
with ThreadPoolExecutor(args.jobs) as ex:
    for res in ex.map(run, seeds):
        for seed, pr, rc, info in res:
            tag = {1: "DETECTED", 0: "missed", None: "skipped"}.get(rc, f"exit{rc}")
            print(f"{seed:8s} {pr} {tag:9s} {info}", flush=True)
            results.append({"seed": seed, "check": pr, "exit": rc, "detected": rc == 1, "info": info})
path = os.path.join(VERIF, "seeded", "RESULTS.json")
old = []
if os.path.exists(path):
    old = [r for r in json.load(open(path)) if (r["seed"], r["check"]) not in {(x["seed"], x["check"]) for x in results}]
json.dump(sorted(old + results, key=lambda r: (r["seed"], r["check"])), open(path, "w"), indent=1)
