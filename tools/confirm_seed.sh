#!/bin/sh
# usage: tools/confirm_seed.sh <dir with patch.diff demo.py README.txt> <seed-id> <property>
# Confirms a seeded change in a scratch worktree: applies cleanly, pinned suite still passes, demo fails with it and
# passes without it.  On success copies it to /verif/seeded/<seed-id>/ with meta.json.
src=$1; sid=$2; prop=$3
W=/tmp/seedchk_$sid
git -C /repo worktree remove --force $W >/dev/null 2>&1
git -C /repo worktree add -q --detach $W HEAD || exit 2
res="ok"
if ! git -C $W apply $src/patch.diff 2>/tmp/seedchk_$sid.err; then res="patch-does-not-apply"; fi
if [ "$res" = ok ]; then
  base=$(/venv/bin/python /verif/tools/run_baseline.py $W | grep stable_pass)
  case "$base" in *"missing=0"*) ;; *) res="suite-changed: $base";; esac
fi
if [ "$res" = ok ]; then
  (cd /tmp && REPO_UNDER_TEST=$W timeout 600 /venv/bin/python $src/demo.py >/tmp/seedchk_$sid.mut.out 2>&1); rc_mut=$?
  git -C $W checkout -q -- . 
  (cd /tmp && REPO_UNDER_TEST=$W timeout 600 /venv/bin/python $src/demo.py >/tmp/seedchk_$sid.clean.out 2>&1); rc_clean=$?
  if [ $rc_mut -eq 0 ]; then res="demo-passes-with-change"; fi
  if [ $rc_clean -ne 0 ]; then res="demo-fails-on-clean-tree(rc=$rc_clean)"; fi
fi
git -C /repo worktree remove --force $W >/dev/null 2>&1
rm -rf $W
echo "$sid $prop: $res (demo rc with change=$rc_mut, clean=$rc_clean; $base)"
if [ "$res" = ok ]; then
  d=/verif/seeded/$sid; mkdir -p $d
  cp $src/patch.diff $src/demo.py $d/; cp $src/README.txt $d/README.txt 2>/dev/null
  /venv/bin/python - "$d" "$sid" "$prop" "$rc_mut" "$rc_clean" "$base" <<'PY'
import json, sys, subprocess
d, sid, prop, rm, rc, base = sys.argv[1:7]
readme = open(d + "/README.txt").read() if True else ""
meta = {"id": sid, "property": prop, "origin": "independent sub-agent given only the property text and a scratch worktree",
        "needs_to_manifest": "see README.txt (author's description)",
        "confirmed": {"repo_commit": subprocess.run(["git", "-C", "/repo", "rev-parse", "--short", "HEAD"], capture_output=True, text=True).stdout.strip(),
                      "patch_applies": True, "pinned_suite": base, "demo_exit_with_change": int(rm), "demo_exit_without_change": int(rc),
                      "command": f"tools/confirm_seed.sh <src> {sid} {prop}"},
        "detected_by": None}
json.dump(meta, open(d + "/meta.json", "w"), indent=1)
PY
fi
