import sys
sys.path.insert(0, "/verif"); sys.path.insert(0, "/repo")
from pyvc import verify
import z3
reg, sources = verify.load_sidecars(["contracts.kschema","contracts.c_eval"])
rep = verify.verify_function(reg, sources, "esp_kconfiglib.core:Symbol.bool_value"); verify.discharge(rep)
rep = verify.verify_function(reg, sources, "esp_kconfiglib.core:Choice._selection_from_defaults")
verify.discharge(rep)
for o in rep.obligations:
    if o["status"] == "failed":
        ob = o["_ob"]
        print("=====", o["name"])
        for c in ob.pc:
            print("   pc:", str(z3.simplify(c)).replace("\n", " ")[:700])
        print("   GOAL:", str(ob.goal).replace("\n", " ")[:3000])
        break
