import sys, os
sys.path.insert(0, "/verif"); sys.path.insert(0, "/repo")
from pyvc import verify, calls, exec as E, types as T
from pyvc.values import mk_ref
import z3
reg, sources = verify.load_sidecars(["contracts.kschema","contracts.c_eval"])
orig = E.Exec.get_attr
def ga(self, ctx, st, obj, attr, node):
    if attr == "name":
        print("get_attr .name on", obj.k, "pc:")
        for c, k in zip(ctx.pc, ctx.kinds):
            print("   ", k, str(z3.simplify(c)).replace("\n", " ")[:300])
        print("  feasible STR?", ctx.feasible(__import__("pyvc.z", fromlist=["V"]).V.is_STR(obj.t)) if obj.k == "any" else None)
    return orig(self, ctx, st, obj, attr, node)
E.Exec.get_attr = ga
ex = E.Exec(reg, sources)
scope = sources.scope("contracts.c_eval")
fdef = sources.get("contracts.c_eval").find("inv_rev_values")
arg = mk_ref(z3.Int("s0"), "Symbol")
lst = T.view(ex, z3.Const("L0", __import__("pyvc.z", fromlist=["V"]).V), T.parse("list[tup(ref:Symbol,expr,ref:Symbol)]"))
print("ety", lst.ety)
sm = calls.get_summary(ex, (scope, fdef), [arg, lst], [], True, ["ref:Symbol", "list[tup(ref:Symbol,expr,ref:Symbol)]"])
