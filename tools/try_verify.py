import sys, time
import os; sys.path.insert(0, "/verif"); sys.path.insert(0, os.environ.get("PYVC_REPO", "/repo"))
from pyvc import verify
mods = sys.argv[1].split(",")
reg, sources = verify.load_sidecars(mods)
for key in sys.argv[2:]:
    t0 = time.time()
    rep = verify.verify_function(reg, sources, key)
    print("==", key, rep.status, rep.reason, "paths", rep.paths, "obls", len(getattr(rep, "_obls", [])), "t=%.1f" % (time.time() - t0), rep.stats)
    verify.discharge(rep, jobs=int(os.environ.get('TV_JOBS', '1')))
    from collections import Counter
    print(Counter((o["name"], o["status"]) for o in rep.obligations))
    for o in rep.obligations:
        if o["status"] != "discharged":
            print("  ", o["name"], o["status"], o.get("backend"), o.get("time"), o.get("exception"), o.get("where"), o.get("line"), str(o.get("model"))[:600], o.get("reason"))
    print("  assumptions:", sorted(rep.assumptions)[:20])
