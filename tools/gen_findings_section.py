#!/usr/bin/env python3
"""Regenerates the lists of DESIGN.md §11 (between 'Fixed (property, commit, what):' and '## 12.') from KNOWN_FINDINGS.jsonl."""
import json, os, re
V = os.path.dirname(os.path.dirname(os.path.abspath(__file__)))
kf = [json.loads(l) for l in open(os.path.join(V, "KNOWN_FINDINGS.jsonl")) if l.strip() and not l.startswith("#")]
fixed = [e for e in kf if e["status"] == "fixed"]
known = [e for e in kf if e["status"] == "known"]
txt = "Fixed (property, commit, what):\n\n"
for e in fixed:
    w = e["what"]
    w = w.split(e["commit"], 1)[1].strip() if e.get("commit") and e["commit"] in w else w
    txt += f"* {e['property']} `{e['commit']}` {w}\n"
txt += "\nKnown (property: what) -- grouped by root cause where several classes share one:\n\n"
seen = set()
for e in known:
    key = (e["property"], e.get("why_not_fixed", "")[:80])
    if key in seen:
        continue
    seen.add(key)
    classes = [k.get("case_class") or k.get("case_class_glob") for k in known if (k["property"], k.get("why_not_fixed", "")[:80]) == key]
    txt += (f"* {e['property']} ({len(classes)} class{'es' if len(classes) > 1 else ''}, e.g. `{classes[0]}`): {e['what']} "
            f"*Not repaired:* {e.get('why_not_fixed', '')[:400]}\n")
p = os.path.join(V, "DESIGN.md")
s = open(p).read()
i = s.index("Fixed (property, commit, what):")
j = s.index("## 12.")
s = s[:i] + txt + "\n" + s[j:]
s = re.sub(r"\* \*\*genuine, repaired\*\* -- \d+ minimal", f"* **genuine, repaired** -- {len(fixed)} minimal", s)
s = re.sub(r"\* \*\*genuine, recorded\*\* -- \d+ entries", f"* **genuine, recorded** -- {len(known)} entries", s)
open(p, "w").write(s)
print(len(fixed), "fixed", len(known), "known")
