import sys, os
sys.path.insert(0, "/verif"); sys.path.insert(0, "/repo")
from pyvc import verify, calls, exec as E
from pyvc.values import mk_ref
import z3
reg, sources = verify.load_sidecars(["contracts.kschema","contracts.c_eval"])
ex = E.Exec(reg, sources)
scope = sources.scope("contracts.c_eval")
fdef = sources.get("contracts.c_eval").find(sys.argv[1])
arg = mk_ref(z3.Int("s0"), "Symbol")
orig = E.Exec.get_attr
def ga(self, ctx, st, obj, attr, node):
    r = orig(self, ctx, st, obj, attr, node)
    if r.k == "py" and isinstance(r.py, E.BoundMethod) and attr == "name":
        print("BOUNDMETHOD for .name on", obj, "line", node.lineno)
        for c, k in zip(ctx.pc, ctx.kinds):
            print("   ", k, str(z3.simplify(c)).replace("\n", " ")[:400])
        raise SystemExit
    return r
E.Exec.get_attr = ga
if len(sys.argv) > 2:
    from pyvc import types as T
    from pyvc.state import State
    st = State()
    lst = T.view(ex, z3.Const("L0", __import__("pyvc.z", fromlist=["V"]).V), T.parse(sys.argv[2]))
    sm = calls.get_summary(ex, (scope, fdef), [arg, lst], [], True, ["ref:Symbol", sys.argv[2]])
else:
    sm = calls.get_summary(ex, (scope, fdef), [arg], [], False, ["ref:Symbol"])
print(sm.value)
