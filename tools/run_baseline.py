#!/usr/bin/env python3
"""Run the pinned test-suite in a tree (default /repo) and compare with the 355 stable_pass tests of BASELINE.json.
usage: run_baseline.py [tree]   -- exit 0 iff every stable_pass test passed."""
import json, os, subprocess, sys, tempfile, xml.etree.ElementTree as ET

tree = sys.argv[1] if len(sys.argv) > 1 else "/repo"
base = json.load(open("/root/.vp/BASELINE.json"))
want = set(base["stable_pass"])
fd, xmlp = tempfile.mkstemp(suffix=".xml")
os.close(fd)
env = dict(os.environ)
env.pop("ESP_IDF_KCONFIG_VERIF", None)
p = subprocess.run(
    ["/venv/bin/python", "-m", "pytest", "-ra", "-q", "-p", "no:cacheprovider", "--timeout=900",
     "--continue-on-collection-errors", f"--junitxml={xmlp}"],
    cwd=tree, env=env, stdout=subprocess.PIPE, stderr=subprocess.STDOUT, text=True)
ok = set()
for tc in ET.parse(xmlp).getroot().iter("testcase"):
    tid = f"{tc.get('classname')}::{tc.get('name')}"
    if not any(ch.tag in ("failure", "error", "skipped") for ch in tc):
        ok.add(tid)
os.unlink(xmlp)
missing = sorted(want - ok)
print(f"stable_pass expected={len(want)} passed={len(want & ok)} missing={len(missing)}")
for m in missing[:40]:
    print("  NOT PASSING:", m)
sys.exit(1 if missing else 0)
