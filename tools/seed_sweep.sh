#!/bin/sh
# usage: tools/seed_sweep.sh <out-dir> <seeds...> -- runs every claimed quick check for each seed (evidence / replays
# redirected to <out-dir>), prints the (property, seed) pairs that did not exit 0
out=$1; shift
mkdir -p $out
for sd in "$@"; do
  for p in C01 C02 C03 C04 C05 C06 C07 C08 C09 C10 C11 C12 C13 C14 C15 C16 C17 C18 C19 C20; do echo "$p $sd"; done
done | xargs -P 3 -L 1 sh -c 'cd /verif; VERIF_SEED=$1 VERIF_JOBS=6 VERIF_OUT='$out'/$0_$1 ./check $0 --tier quick > '$out'/$0_$1.out 2>/dev/null; rc=$?; [ $rc -ne 0 ] && echo "NONZERO $0 seed=$1 exit=$rc"; true'
echo SWEEP-DONE
