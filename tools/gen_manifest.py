#!/usr/bin/env python3
"""Regenerate MANIFEST.json from vcheck/manifest_data.py (single source for claims)."""
import json, os, sys
sys.path.insert(0, os.path.dirname(os.path.dirname(os.path.abspath(__file__))))
from vcheck import manifest_data as D
props = [json.loads(l) for l in open(os.path.join(os.path.dirname(__file__), "..", "properties.jsonl"))]
ids = [p["id"] for p in props]
checks = []
for pid in ids:
    c = D.CLAIMS.get(pid)
    if not c or pid not in D.ENABLED:
        continue
    checks.append({
        "property_id": pid,
        "quick_cmd": f"./check {pid} --tier quick",
        "thorough_cmd": f"./check {pid} --tier thorough",
        "evidence_file": f"/verif/evidence/{pid}.json",
        "replay_cmd_template": f"./check {pid} --replay {{path}}",
        "engine": "pyvc",
        "level_claimed": {"category": c["category"], "text": c["text"], "design_ref": c["design_ref"]},
        "level_note": c["note"],
        "technique": c["technique"],
    })
na = [{"property_id": pid, "reason": D.NOT_APPLICABLE.get(pid, "not yet claimed: contracts for this property are not built yet")}
      for pid in ids if pid not in D.CLAIMS or pid not in D.ENABLED]
m = {
    "version": 1,
    "setup_cmd": "./setup.sh",
    "hooks": {"guard": "ESP_IDF_KCONFIG_VERIF", "enable": "no hooks: pyvc reads /repo's source text; bounded stand-ins wrap functions at import time from /verif",
              "baseline_off_cmd": "/venv/bin/python /verif/tools/run_baseline.py /repo", "source_commits": [], "add_only": True},
    "engines": [
        {"name": "pyvc", "path": "/verif/pyvc", "serves_properties": sorted(p for p in D.ENABLED if "bounded stand-in; nothing proved" not in D.CLAIMS[p]["technique"]),
         "kind_free_text": "contract-based deductive verification: Python ast -> verification conditions (symbolic execution, calls by contract, loop summaries) discharged by z3 / cvc5; sidecar contracts in /verif/contracts"},
        {"name": "rtc", "path": "/verif/rtc", "serves_properties": sorted(p for p in D.ENABLED if "run-time contracts" in D.CLAIMS[p]["technique"]),
         "kind_free_text": "bounded stand-in: the same contracts checked at run time on the real functions over an exhaustively enumerated small scope (labelled bounded, never counted as proved)"},
    ],
    "checks": checks,
    "not_applicable": na,
    "notes": D.NOTES,
}
json.dump(m, open(os.path.join(os.path.dirname(__file__), "..", "MANIFEST.json"), "w"), indent=1)
import jsonschema
jsonschema.validate(m, json.load(open("/root/.vp/MANIFEST.schema.json")))
print("MANIFEST.json written:", len(checks), "checks,", len(na), "not_applicable")
