import sys, traceback, os
sys.path.insert(0, "/verif"); sys.path.insert(0, os.environ.get("PYVC_REPO", "/repo"))
from pyvc import verify, values
reg, sources = verify.load_sidecars(sys.argv[1].split(","))
orig = values.Unsupported.__init__
def init(self, *a):
    orig(self, *a)
    self.tb = "".join(traceback.format_stack()[-14:-1])
values.Unsupported.__init__ = init
import pyvc.verify as v
from pyvc.state import Explorer
rep = None
try:
    c = reg.contracts[sys.argv[2]]
    rep = verify.verify_function(reg, sources, sys.argv[2])
    print(rep.status, rep.reason)
except Exception as e:
    traceback.print_exc()
