import sys
sys.path.insert(0, "/verif"); sys.path.insert(0, "/repo")
from pyvc import verify, calls
import z3
reg, sources = verify.load_sidecars(["contracts.kschema","contracts.c_eval"])
rep = verify.verify_function(reg, sources, "esp_kconfiglib.core:Choice._selection")
for k, sm in calls._SUMMARIES.items():
    print("SUMMARY", k[0], k[1], "fresh", sm.fresh)
    print("  assume:", str(sm.assume).replace("\n"," ")[:1500])
    print("  value:", str(sm.value).replace("\n"," ")[:600])
